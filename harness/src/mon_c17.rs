//! C17 — the C API behaves exactly like the Rust API on the same values (sequential model);
//! C18 — the same driver obeys the ownership protocol and runs under ASan+LSan / Miri, plus the null sweep.
//!
//! Calls go through the Rust signatures of the extern "C" functions. Every handle is mirrored by a
//! harness-side `Value` on which the corresponding Rust operation is applied.

use crate::bridge::observe;
use crate::ctx::{truncate, Ctx};
use crate::prng::Rng;
use libhaystack::c_api::coord::*;
use libhaystack::c_api::date::*;
use libhaystack::c_api::datetime::*;
use libhaystack::c_api::dict::*;
use libhaystack::c_api::err::last_error_message;
use libhaystack::c_api::filter::*;
use libhaystack::c_api::grid::*;
use libhaystack::c_api::json::*;
use libhaystack::c_api::list::*;
use libhaystack::c_api::number::*;
use libhaystack::c_api::reference::*;
use libhaystack::c_api::str::*;
use libhaystack::c_api::symbol::*;
use libhaystack::c_api::time::*;
use libhaystack::c_api::uri::*;
use libhaystack::c_api::value::*;
use libhaystack::c_api::xstr::*;
use libhaystack::c_api::zinc::*;
use libhaystack::c_api::ResultType;
use libhaystack::encoding::zinc::encode::to_zinc_string;
use libhaystack::filter::{Filter, Filtered, ListFiltered};
use libhaystack::val::*;
use serde_json::{json, Value as J};
use std::ffi::{CStr, CString};
use std::os::raw::c_char;
use std::ptr::{null, null_mut};

struct Slot {
    ptr: *mut Value,
    mirror: Value,
}

struct FSlot {
    ptr: *mut Filter,
    text: String,
}

pub struct World<'a> {
    ctx: &'a mut Ctx,
    rng: Rng,
    slots: Vec<Slot>,
    filters: Vec<FSlot>,
    log: Vec<String>,
    pub ops: u64,
}

unsafe extern "C" fn list_len_shim(v: *const Value) -> usize {
    haystack_value_get_list_len(v as *mut Value)
}

unsafe fn take_err() -> Option<String> {
    let p = last_error_message();
    if p.is_null() {
        None
    } else {
        let s = CStr::from_ptr(p).to_string_lossy().to_string();
        haystack_string_destroy(p as *mut c_char);
        Some(s)
    }
}

unsafe fn take_cstr(p: *const c_char) -> Option<String> {
    if p.is_null() {
        None
    } else {
        let s = CStr::from_ptr(p).to_string_lossy().to_string();
        haystack_string_destroy(p as *mut c_char);
        Some(s)
    }
}

fn own(b: Option<Box<Value>>) -> *mut Value {
    match b {
        Some(b) => Box::into_raw(b),
        None => null_mut(),
    }
}

fn same(a: &Value, b: &Value) -> bool {
    observe(a) == observe(b)
}

fn cstr(s: &str) -> CString {
    CString::new(s.replace('\0', "")).unwrap()
}

const BAD_UTF8: &[u8] = b"\xff\xfe\xfd\0";

#[derive(Clone, Copy, PartialEq, Eq, Debug)]
enum ArgClass {
    Valid,
    WrongKind,
    OutOfRange,
    Null,
    NonUtf8,
    InvalidText,
}

impl ArgClass {
    fn name(self) -> &'static str {
        match self {
            ArgClass::Valid => "valid",
            ArgClass::WrongKind => "wrong-kind",
            ArgClass::OutOfRange => "out-of-range",
            ArgClass::Null => "null",
            ArgClass::NonUtf8 => "non-utf8",
            ArgClass::InvalidText => "invalid-text",
        }
    }
}

impl<'a> World<'a> {
    pub fn new(ctx: &'a mut Ctx, rng: Rng) -> Self {
        World { ctx, rng, slots: Vec::new(), filters: Vec::new(), log: Vec::new(), ops: 0 }
    }

    fn fail(&mut self, op: &str, class: ArgClass, what: &str, detail: String) {
        let sig = format!("capi:{}:{}:{}", op, class.name(), what);
        let tail: Vec<String> = self.log.iter().rev().take(12).rev().cloned().collect();
        self.ctx.violation(&sig, &format!("{op} with {} argument(s): {what}: {detail}", class.name()), json!({"last_ops": tail}));
    }

    /// after a call that must have failed: an error message is retrievable, and retrieving clears it
    unsafe fn expect_error(&mut self, op: &str, class: ArgClass) {
        match take_err() {
            None => self.fail(op, class, "failure-without-error-message", "the call reported failure but last_error_message() is null".into()),
            Some(_) => {
                if let Some(m) = take_err() {
                    self.fail(op, class, "error-not-cleared", format!("last_error_message() returned a message twice: {m}"));
                }
            }
        }
    }

    /// after a call that must have succeeded: no (stale) error
    unsafe fn expect_no_error(&mut self, op: &str, class: ArgClass) {
        if let Some(m) = take_err() {
            self.fail(op, class, "success-with-error-message", format!("the call succeeded but an error is pending: {m}"));
        }
    }

    /// all live handles still equal their mirrors
    unsafe fn check_all(&mut self, op: &str, class: ArgClass) {
        for i in 0..self.slots.len() {
            let ok = same(&*self.slots[i].ptr, &self.slots[i].mirror);
            if !ok {
                let got = truncate(&observe(&*self.slots[i].ptr).show(), 200);
                let want = truncate(&observe(&self.slots[i].mirror).show(), 200);
                self.fail(op, class, "handle-differs-from-model", format!("handle #{i} holds {got}, the model says {want}"));
                // resynchronise so one divergence is reported once
                self.slots[i].mirror = (*self.slots[i].ptr).clone();
            }
        }
    }

    fn add(&mut self, ptr: *mut Value, mirror: Value) -> usize {
        self.slots.push(Slot { ptr, mirror });
        self.slots.len() - 1
    }

    fn pick_kind(&mut self, pred: fn(&Value) -> bool) -> Option<usize> {
        let idx: Vec<usize> = (0..self.slots.len()).filter(|i| pred(&self.slots[*i].mirror)).collect();
        if idx.is_empty() {
            None
        } else {
            Some(idx[self.rng.below(idx.len())])
        }
    }

    fn pick_not_kind(&mut self, pred: fn(&Value) -> bool) -> Option<usize> {
        let idx: Vec<usize> = (0..self.slots.len()).filter(|i| !pred(&self.slots[*i].mirror)).collect();
        if idx.is_empty() {
            None
        } else {
            Some(idx[self.rng.below(idx.len())])
        }
    }

    /// choose a handle of the wanted kind (valid), of another kind, or null
    fn choose(&mut self, pred: fn(&Value) -> bool) -> (*mut Value, Option<usize>, ArgClass) {
        let r = self.rng.below(10);
        if r < 7 {
            if let Some(i) = self.pick_kind(pred) {
                return (self.slots[i].ptr, Some(i), ArgClass::Valid);
            }
        }
        if r < 9 {
            if let Some(i) = self.pick_not_kind(pred) {
                return (self.slots[i].ptr, Some(i), ArgClass::WrongKind);
            }
        }
        (null_mut(), None, ArgClass::Null)
    }

    /// a result holder for out-parameters: usually a fresh haystack_value_init(), sometimes an existing handle
    /// that already owns heap data (the callee must drop what it overwrites). Returns (pointer, slot index if reused).
    unsafe fn holder(&mut self, avoid: &[Option<usize>]) -> (*mut Value, Option<usize>) {
        if !self.slots.is_empty() && self.rng.chance(1, 3) {
            let i = self.rng.below(self.slots.len());
            if !avoid.contains(&Some(i)) {
                return (self.slots[i].ptr, Some(i));
            }
        }
        (Box::into_raw(haystack_value_init()), None)
    }

    /// after the call: record what the holder now holds
    unsafe fn settle_holder(&mut self, out: *mut Value, reused: Option<usize>) {
        if out.is_null() {
            return;
        }
        let m = (*out).clone();
        match reused {
            Some(i) => self.slots[i].mirror = m,
            None => {
                self.add(out, m);
            }
        }
    }

    fn text(&mut self) -> String {
        match self.rng.below(6) {
            0 => String::new(),
            1 => "a".into(),
            2 => "site".into(),
            _ => crate::gen::gen_string(&mut self.rng).replace('\0', ""),
        }
    }

    unsafe fn op_make(&mut self) {
        let k = if self.rng.chance(3, 10) { 17 } else { self.rng.below(17) };
        let name = ["init", "marker", "na", "remove", "bool", "number", "number_unit", "coord", "str", "ref", "ref_dis", "uri", "symbol", "xstr", "time", "time_millis", "date", "list|dict|grid"][k];
        let op = format!("make_{name}");
        self.log.push(op.clone());
        let simple = |w: &mut World, b: Box<Value>, m: Value, op: &str| {
            let p = Box::into_raw(b);
            if !same(&*p, &m) {
                w.fail(op, ArgClass::Valid, "wrong-value", format!("made {} expected {}", observe(&*p).show(), observe(&m).show()));
            }
            w.add(p, m);
        };
        match k {
            0 => simple(self, haystack_value_init(), Value::Null, &op),
            1 => simple(self, haystack_value_make_marker(), Value::make_marker(), &op),
            2 => simple(self, haystack_value_make_na(), Value::make_na(), &op),
            3 => simple(self, haystack_value_make_remove(), Value::make_remove(), &op),
            4 => {
                let b = self.rng.coin();
                simple(self, haystack_value_make_bool(b), Value::make_bool(b), &op)
            }
            5 => {
                let x = crate::gen::gen_finite_f64(&mut self.rng);
                simple(self, haystack_value_make_number(x), Value::make_number(x), &op)
            }
            6 => {
                let x = crate::gen::gen_finite_f64(&mut self.rng);
                let units = crate::bridge::all_units();
                let u = units[self.rng.below(units.len())];
                match self.rng.below(5) {
                    0 => {
                        let r = haystack_value_make_number_with_unit(x, null());
                        self.expect_fail_make(&op, ArgClass::Null, r);
                    }
                    1 => {
                        let r = haystack_value_make_number_with_unit(x, BAD_UTF8.as_ptr() as *const c_char);
                        self.expect_fail_make(&op, ArgClass::NonUtf8, r);
                    }
                    2 => {
                        // no unit has any of these identifiers (incl. the empty string)
                        let c = cstr(*self.rng.pick::<&str>(&["noSuchUnit", "", " ", "kW ", " kW", "\u{e9}", "1", "-", "KW"]));
                        let r = haystack_value_make_number_with_unit(x, c.as_ptr());
                        self.expect_fail_make(&op, ArgClass::InvalidText, r);
                    }
                    _ => {
                        let id = u.ids[self.rng.below(u.ids.len())].clone();
                        let c = cstr(&id);
                        let r = haystack_value_make_number_with_unit(x, c.as_ptr());
                        self.expect_ok_make(&op, r, Value::make_number_unit(x, u));
                    }
                }
            }
            7 => {
                let (a, b) = (self.rng.unit_f64() * 180.0 - 90.0, self.rng.unit_f64() * 360.0 - 180.0);
                simple(self, haystack_value_make_coord(a, b), Value::make_coord_from(a, b), &op)
            }
            8 | 9 | 11 | 12 => {
                let f: unsafe extern "C" fn(*const c_char) -> Option<Box<Value>> = match k {
                    8 => haystack_value_make_str,
                    9 => haystack_value_make_ref,
                    11 => haystack_value_make_uri,
                    _ => haystack_value_make_symbol,
                };
                match self.rng.below(6) {
                    0 => {
                        let r = f(null());
                        self.expect_fail_make(&op, ArgClass::Null, r);
                    }
                    1 => {
                        let r = f(BAD_UTF8.as_ptr() as *const c_char);
                        self.expect_fail_make(&op, ArgClass::NonUtf8, r);
                    }
                    _ => {
                        let s = self.text();
                        let c = cstr(&s);
                        let m = match k {
                            8 => Value::make_str(&s),
                            9 => Value::make_ref(&s),
                            11 => Value::make_uri(&s),
                            _ => Value::make_symbol(&s),
                        };
                        let r = f(c.as_ptr());
                        self.expect_ok_make(&op, r, m);
                    }
                }
            }
            10 | 13 => {
                let f: unsafe extern "C" fn(*const c_char, *const c_char) -> Option<Box<Value>> = if k == 10 { haystack_value_make_ref_with_dis } else { haystack_value_make_xstr };
                let (a, b) = (self.text(), self.text());
                let (ca, cb) = (cstr(&a), cstr(&b));
                match self.rng.below(8) {
                    // a multi-byte character cut between the end of the first and the start of the second argument:
                    // each argument alone is not UTF-8 (their concatenation would be)
                    7 => {
                        // ... or only one of them is cut, at its very end, next to a perfectly valid other argument
                        let splits: [(&[u8], &[u8]); 9] = [(b"\xC3\0", b"\xA9\0"), (b"Bin\xE2\x82\0", b"\xACx\0"), (b"\xF0\0", b"\x9F\x98\x80\0"), (b"a\xF0\x9F\0", b"\x98\x80\0"),
                            (b"Ref\0", b"Caf\xC3\0"), (b"Ref\0", b"10 \xE2\x82\0"), (b"Caf\xC3\0", b"dis\0"), (b"Bin\0", b"\xF0\x9F\x98\0"), (b"Bin\0", b"ok\x80\0")];
                        let (x, y) = splits[self.rng.below(9)];
                        let r = f(x.as_ptr() as *const c_char, y.as_ptr() as *const c_char);
                        self.expect_fail_make(&op, ArgClass::NonUtf8, r);
                    }
                    0 => {
                        let r = f(null(), cb.as_ptr());
                        self.expect_fail_make(&op, ArgClass::Null, r);
                    }
                    1 => {
                        let r = f(ca.as_ptr(), null());
                        self.expect_fail_make(&op, ArgClass::Null, r);
                    }
                    2 => {
                        let r = f(ca.as_ptr(), BAD_UTF8.as_ptr() as *const c_char);
                        self.expect_fail_make(&op, ArgClass::NonUtf8, r);
                    }
                    3 => {
                        let r = f(BAD_UTF8.as_ptr() as *const c_char, cb.as_ptr());
                        self.expect_fail_make(&op, ArgClass::NonUtf8, r);
                    }
                    _ => {
                        let m = if k == 10 { Value::make_ref_with_dis(&a, &b) } else { Value::make_xstr_from(&a, &b) };
                        let r = f(ca.as_ptr(), cb.as_ptr());
                        self.expect_ok_make(&op, r, m);
                    }
                }
            }
            14 | 15 => {
                let bad = self.rng.chance(1, 4);
                let (h, mi, s, ms) = if bad { (24 + self.rng.below(10) as u32, self.rng.below(70) as u32, self.rng.below(70) as u32, self.rng.below(3000) as u32) } else { (self.rng.below(24) as u32, self.rng.below(60) as u32, self.rng.below(60) as u32, self.rng.below(1000) as u32) };
                let (r, m) = if k == 14 { (haystack_value_make_time(h, mi, s), Time::from_hms(h, mi, s)) } else { (haystack_value_make_time_millis(h, mi, s, ms), Time::from_hms_milli(h, mi, s, ms)) };
                match m {
                    Ok(t) => self.expect_ok_make(&op, r, Value::make_time(t)),
                    Err(_) => self.expect_fail_make(&op, ArgClass::OutOfRange, r),
                }
            }
            16 => {
                let bad = self.rng.chance(1, 4);
                let (y, mo, d) = if bad { (self.rng.range(-5, 3000) as i32, self.rng.below(15) as u32, 29 + self.rng.below(6) as u32) } else { (self.rng.range(0, 9999) as i32, 1 + self.rng.below(12) as u32, 1 + self.rng.below(28) as u32) };
                let r = haystack_value_make_date(y, mo, d);
                match Date::from_ymd(y, mo, d) {
                    Ok(dt) => self.expect_ok_make(&op, r, Value::make_date(dt)),
                    Err(_) => self.expect_fail_make(&op, ArgClass::OutOfRange, r),
                }
            }
            _ => match self.rng.below(3) {
                0 => simple(self, haystack_value_make_list(), Value::make_list(vec![]), &op),
                1 => simple(self, haystack_value_make_dict(), Value::make_dict(Dict::new()), &op),
                _ => simple(self, haystack_value_make_grid(), Value::make_grid(Grid::make_empty()), &op),
            },
        }
    }

    unsafe fn expect_ok_make(&mut self, op: &str, r: Option<Box<Value>>, m: Value) {
        match r {
            None => {
                let e = take_err();
                self.fail(op, ArgClass::Valid, "valid-arguments-rejected", format!("returned null ({e:?}) for what the Rust API accepts: {}", truncate(&observe(&m).show(), 200)));
            }
            Some(b) => {
                let p = Box::into_raw(b);
                if !same(&*p, &m) {
                    self.fail(op, ArgClass::Valid, "wrong-value", format!("made {} expected {}", truncate(&observe(&*p).show(), 200), truncate(&observe(&m).show(), 200)));
                }
                self.expect_no_error(op, ArgClass::Valid);
                self.add(p, (*p).clone());
            }
        }
    }

    unsafe fn expect_fail_make(&mut self, op: &str, class: ArgClass, r: Option<Box<Value>>) {
        match r {
            Some(b) => {
                let p = Box::into_raw(b);
                self.fail(op, class, "invalid-arguments-accepted", format!("returned {}", truncate(&observe(&*p).show(), 200)));
                let _ = take_err();
                haystack_value_destroy(p);
            }
            None => self.expect_error(op, class),
        }
    }

    unsafe fn op_predicates(&mut self) {
        let (p, i, class) = if self.slots.is_empty() || self.rng.chance(1, 12) { (null_mut(), None, ArgClass::Null) } else { let i = self.rng.below(self.slots.len()); (self.slots[i].ptr, Some(i), ArgClass::Valid) };
        self.log.push(format!("is_* #{i:?}"));
        let got = [
            haystack_value_is_null(p),
            haystack_value_is_remove(p),
            haystack_value_is_marker(p),
            haystack_value_is_na(p),
            haystack_value_is_bool(p),
            haystack_value_is_number(p),
            haystack_value_is_str(p),
            haystack_value_is_uri(p),
            haystack_value_is_ref(p),
            haystack_value_is_symbol(p),
            haystack_value_is_date(p),
            haystack_value_is_time(p),
            haystack_value_is_datetime(p),
            haystack_value_is_coord(p),
            haystack_value_is_xstr(p),
            haystack_value_is_list(p),
            haystack_value_is_dict(p),
            haystack_value_is_grid(p),
        ];
        match i {
            None => {
                if got.iter().any(|b| *b) {
                    self.fail("is_*", class, "true-for-null-pointer", format!("{got:?}"));
                }
                self.expect_error("is_*", class);
            }
            Some(i) => {
                let m = &self.slots[i].mirror;
                let want = [m.is_null(), m.is_remove(), m.is_marker(), m.is_na(), m.is_bool(), m.is_number(), m.is_str(), m.is_uri(), m.is_ref(), m.is_symbol(), m.is_date(), m.is_time(), m.is_datetime(), m.is_coord(), m.is_xstr(), m.is_list(), m.is_dict(), m.is_grid()];
                if got != want {
                    let kind = observe(m).kind_name();
                    self.fail("is_*", class, "predicates-differ-from-rust", format!("for a {kind}: C {got:?} Rust {want:?}"));
                }
                self.expect_no_error("is_*", class);
            }
        }
    }

    /// string getter: C string result vs the Rust field
    unsafe fn str_getter(&mut self, op: &str, f: unsafe extern "C" fn(*const Value) -> *const c_char, pred: fn(&Value) -> bool, field: fn(&Value) -> Option<Option<String>>) {
        let (p, i, class) = self.choose(pred);
        self.log.push(format!("{op} #{i:?} {}", class.name()));
        let got = take_cstr(f(p));
        let want: Option<Option<String>> = i.and_then(|i| field(&self.slots[i].mirror));
        match want {
            // the getter applies and the field is present
            Some(Some(s)) => {
                if s.contains('\0') {
                    // not representable as a C string: must fail with an error
                    if got.is_some() {
                        self.fail(op, ArgClass::Valid, "nul-string-returned", "a string containing NUL was returned as a C string".into());
                    }
                    self.expect_error(op, ArgClass::Valid);
                } else {
                    if got.as_deref() != Some(s.as_str()) {
                        self.fail(op, class, "wrong-string", format!("C gives {:?}, Rust field is {:?}", got.map(|g| truncate(&g, 80)), truncate(&s, 80)));
                    }
                    self.expect_no_error(op, class);
                }
            }
            // applies, optional field absent (unit-less number, ref without dis): null, no error
            Some(None) => {
                if got.is_some() {
                    self.fail(op, class, "absent-field-returned", format!("{got:?}"));
                }
                self.expect_no_error(op, class);
            }
            None => {
                if got.is_some() {
                    self.fail(op, class, "no-sentinel", format!("returned {got:?} instead of null"));
                }
                self.expect_error(op, class);
            }
        }
    }

    unsafe fn usize_getter(&mut self, op: &str, f: unsafe extern "C" fn(*const Value) -> usize, pred: fn(&Value) -> bool, field: fn(&Value) -> Option<usize>) {
        let (p, i, class) = self.choose(pred);
        self.log.push(format!("{op} #{i:?} {}", class.name()));
        let got = f(p);
        match i.and_then(|i| field(&self.slots[i].mirror)) {
            Some(n) => {
                if got != n {
                    self.fail(op, class, "wrong-length", format!("C {got} Rust {n}"));
                }
                self.expect_no_error(op, class);
            }
            None => {
                if got != usize::MAX {
                    self.fail(op, class, "no-sentinel", format!("returned {got} instead of usize::MAX"));
                }
                self.expect_error(op, class);
            }
        }
    }

    unsafe fn u32_getter(&mut self, op: &str, f: unsafe extern "C" fn(*const Value) -> u32, pred: fn(&Value) -> bool, field: fn(&Value) -> Option<u32>) {
        let (p, i, class) = self.choose(pred);
        self.log.push(format!("{op} #{i:?} {}", class.name()));
        let got = f(p);
        match i.and_then(|i| field(&self.slots[i].mirror)) {
            Some(n) => {
                if got != n {
                    self.fail(op, class, "wrong-number", format!("C {got} Rust {n}"));
                }
                self.expect_no_error(op, class);
            }
            None => {
                if got != u32::MAX {
                    self.fail(op, class, "no-sentinel", format!("returned {got} instead of u32::MAX"));
                }
                self.expect_error(op, class);
            }
        }
    }

    unsafe fn f64_getter(&mut self, op: &str, f: unsafe extern "C" fn(*const Value) -> f64, pred: fn(&Value) -> bool, field: fn(&Value) -> Option<f64>) {
        let (p, i, class) = self.choose(pred);
        self.log.push(format!("{op} #{i:?} {}", class.name()));
        let got = f(p);
        match i.and_then(|i| field(&self.slots[i].mirror)) {
            Some(n) => {
                if got.to_bits() != n.to_bits() {
                    self.fail(op, class, "wrong-number", format!("C {got} Rust {n}"));
                }
                self.expect_no_error(op, class);
            }
            None => {
                if !got.is_nan() {
                    self.fail(op, class, "no-sentinel", format!("returned {got} instead of NaN"));
                }
                self.expect_error(op, class);
            }
        }
    }

    unsafe fn op_getter(&mut self) {
        use chrono::{Datelike, Timelike};
        match self.rng.below(22) {
            0 => self.str_getter("get_str_value", haystack_value_get_str_value, |v| v.is_str(), |v| if let Value::Str(s) = v { Some(Some(s.value.clone())) } else { None }),
            1 => self.usize_getter("get_str_len", haystack_value_get_str_len, |v| v.is_str(), |v| if let Value::Str(s) = v { Some(s.value.len()) } else { None }),
            2 => self.str_getter("get_ref_value", haystack_value_get_ref_value, |v| v.is_ref(), |v| if let Value::Ref(s) = v { Some(Some(s.value.clone())) } else { None }),
            3 => self.usize_getter("get_ref_value_len", haystack_value_get_ref_value_len, |v| v.is_ref(), |v| if let Value::Ref(s) = v { Some(s.value.len()) } else { None }),
            4 => self.str_getter("get_ref_dis", haystack_value_get_ref_dis, |v| v.is_ref(), |v| if let Value::Ref(s) = v { Some(s.dis.clone()) } else { None }),
            5 => self.str_getter("get_uri_value", haystack_value_get_uri_value, |v| v.is_uri(), |v| if let Value::Uri(s) = v { Some(Some(s.value.clone())) } else { None }),
            6 => self.usize_getter("get_uri_value_len", haystack_value_get_uri_value_len, |v| v.is_uri(), |v| if let Value::Uri(s) = v { Some(s.value.len()) } else { None }),
            7 => self.str_getter("get_symbol_value", haystack_value_get_symbol_value, |v| v.is_symbol(), |v| if let Value::Symbol(s) = v { Some(Some(s.value.clone())) } else { None }),
            8 => self.usize_getter("get_symbol_value_len", haystack_value_get_symbol_value_len, |v| v.is_symbol(), |v| if let Value::Symbol(s) = v { Some(s.value.len()) } else { None }),
            9 => self.str_getter("get_xstr_type", haystack_value_get_xstr_type, |v| v.is_xstr(), |v| if let Value::XStr(s) = v { Some(Some(s.r#type.clone())) } else { None }),
            10 => self.str_getter("get_xstr_value", haystack_value_get_xstr_value, |v| v.is_xstr(), |v| if let Value::XStr(s) = v { Some(Some(s.value.clone())) } else { None }),
            11 => self.f64_getter("get_number_value", haystack_value_get_number_value, |v| v.is_number(), |v| if let Value::Number(n) = v { Some(n.value) } else { None }),
            12 => self.str_getter("get_number_unit", haystack_value_get_number_unit, |v| v.is_number(), |v| if let Value::Number(n) = v { Some(n.unit.map(|u| u.symbol().to_string())) } else { None }),
            13 => {
                let (p, i, class) = self.choose(|v| v.is_number());
                self.log.push(format!("number_has_unit #{i:?} {}", class.name()));
                let got = haystack_value_number_has_unit(p);
                match i.map(|i| self.slots[i].mirror.clone()) {
                    Some(Value::Number(n)) => {
                        let want = if n.unit.is_some() { ResultType::TRUE } else { ResultType::FALSE };
                        if got != want {
                            self.fail("number_has_unit", class, "wrong-result", format!("{got:?} vs {want:?}"));
                        }
                        self.expect_no_error("number_has_unit", class);
                    }
                    _ => {
                        if got != ResultType::ERR {
                            self.fail("number_has_unit", class, "no-sentinel", format!("{got:?}"));
                        }
                        self.expect_error("number_has_unit", class);
                    }
                }
            }
            14 => self.f64_getter("get_coord_lat", haystack_value_get_coord_lat, |v| v.is_coord(), |v| if let Value::Coord(c) = v { Some(c.lat) } else { None }),
            15 => self.f64_getter("get_coord_long", haystack_value_get_coord_long, |v| v.is_coord(), |v| if let Value::Coord(c) = v { Some(c.long) } else { None }),
            16 => self.u32_getter("get_date_year", haystack_value_get_date_year, |v| v.is_date(), |v| if let Value::Date(d) = v { Some(d.year() as u32) } else { None }),
            17 => self.u32_getter("get_date_month", haystack_value_get_date_month, |v| v.is_date(), |v| if let Value::Date(d) = v { Some(d.month()) } else { None }),
            18 => self.u32_getter("get_date_day", haystack_value_get_date_day, |v| v.is_date(), |v| if let Value::Date(d) = v { Some(d.day()) } else { None }),
            19 => self.u32_getter("get_time_hour", haystack_value_get_time_hour, |v| v.is_time(), |v| if let Value::Time(d) = v { Some(d.hour()) } else { None }),
            20 => {
                if self.rng.coin() {
                    self.u32_getter("get_time_minutes", haystack_value_get_time_minutes, |v| v.is_time(), |v| if let Value::Time(d) = v { Some(d.minute()) } else { None })
                } else {
                    self.u32_getter("get_time_seconds", haystack_value_get_time_seconds, |v| v.is_time(), |v| if let Value::Time(d) = v { Some(d.second()) } else { None })
                }
            }
            _ => self.u32_getter("get_time_millis", haystack_value_get_time_millis, |v| v.is_time(), |v| if let Value::Time(d) = v { Some(d.nanosecond() / 1_000_000) } else { None }),
        }
    }

    unsafe fn op_list(&mut self) {
        let (p, li, class) = self.choose(|v| v.is_list());
        match self.rng.below(6) {
            0 => self.usize_getter("get_list_len", list_len_shim, |v| v.is_list(), |v| if let Value::List(l) = v { Some(l.len()) } else { None }),
            1 | 2 => {
                // push
                let (e, ei, eclass) = if self.rng.chance(1, 8) || self.slots.is_empty() { (null_mut(), None, ArgClass::Null) } else { let i = self.rng.below(self.slots.len()); (self.slots[i].ptr, Some(i), ArgClass::Valid) };
                self.log.push(format!("push_list_entry list#{li:?}({}) entry#{ei:?}", class.name()));
                // pushing a list into itself through aliasing pointers is outside the protocol
                if li.is_some() && li == ei {
                    return;
                }
                let r = haystack_value_push_list_entry(p, e);
                let valid = class == ArgClass::Valid && eclass == ArgClass::Valid;
                if valid {
                    let ev = self.slots[ei.unwrap()].mirror.clone();
                    if let Value::List(l) = &mut self.slots[li.unwrap()].mirror {
                        l.push(ev);
                    }
                    if r != ResultType::TRUE {
                        self.fail("push_list_entry", ArgClass::Valid, "valid-call-failed", format!("{r:?}"));
                        let _ = take_err();
                    } else {
                        self.expect_no_error("push_list_entry", ArgClass::Valid);
                    }
                } else {
                    let c = if class != ArgClass::Valid { class } else { eclass };
                    if r != ResultType::ERR {
                        self.fail("push_list_entry", c, "no-sentinel", format!("{r:?}"));
                    }
                    self.expect_error("push_list_entry", c);
                }
            }
            3 => {
                // get at
                let len = li.map(|i| if let Value::List(l) = &self.slots[i].mirror { l.len() } else { 0 }).unwrap_or(0);
                let oob = self.rng.chance(1, 4) || len == 0;
                let idx = if oob { len + self.rng.below(3) } else { self.rng.below(len) };
                let null_result = self.rng.chance(1, 10);
                let mut out: *const Value = null();
                self.log.push(format!("get_list_entry_at list#{li:?}({}) idx {idx} len {len}", class.name()));
                let r = haystack_value_get_list_entry_at(p, idx, if null_result { null_mut() } else { &mut out });
                let ok = class == ArgClass::Valid && li.is_some() && !oob && !null_result;
                if ok {
                    let want = if let Value::List(l) = &self.slots[li.unwrap()].mirror { l[idx].clone() } else { unreachable!() };
                    if r != ResultType::TRUE || out.is_null() || !same(&*out, &want) {
                        self.fail("get_list_entry_at", ArgClass::Valid, "wrong-entry", format!("result {r:?}"));
                    }
                    self.expect_no_error("get_list_entry_at", ArgClass::Valid);
                } else {
                    let c = if class != ArgClass::Valid { class } else if null_result { ArgClass::Null } else { ArgClass::OutOfRange };
                    if r != ResultType::ERR {
                        self.fail("get_list_entry_at", c, "no-sentinel", format!("{r:?}"));
                    }
                    self.expect_error("get_list_entry_at", c);
                }
            }
            4 => {
                // set at: documented post-condition get(i)==entry, other elements keep their relative order
                let len = li.map(|i| if let Value::List(l) = &self.slots[i].mirror { l.len() } else { 0 }).unwrap_or(0);
                let oob = self.rng.chance(1, 4) || len == 0;
                let idx = if oob { len + self.rng.below(3) } else { self.rng.below(len) };
                let (e, ei, eclass) = if self.rng.chance(1, 8) || self.slots.is_empty() { (null_mut(), None, ArgClass::Null) } else { let i = self.rng.below(self.slots.len()); (self.slots[i].ptr, Some(i), ArgClass::Valid) };
                if li.is_some() && li == ei {
                    return;
                }
                self.log.push(format!("set_list_entry_at list#{li:?}({}) idx {idx} len {len} entry#{ei:?}", class.name()));
                let r = haystack_value_set_list_entry_at(p, idx, e);
                let ok = class == ArgClass::Valid && li.is_some() && !oob && eclass == ArgClass::Valid;
                if ok {
                    let ev = self.slots[ei.unwrap()].mirror.clone();
                    let before = if let Value::List(l) = &self.slots[li.unwrap()].mirror { l.clone() } else { unreachable!() };
                    let after = if let Value::List(l) = &*self.slots[li.unwrap()].ptr { l.clone() } else { vec![] };
                    if r != ResultType::TRUE || after.get(idx).map(|v| same(v, &ev)) != Some(true) {
                        self.fail("set_list_entry_at", ArgClass::Valid, "entry-not-at-index", format!("result {r:?}"));
                    }
                    // the other elements, in order: either the old list without position idx (replace) or the whole old list (insert)
                    let mut rest = after.clone();
                    if idx < rest.len() {
                        rest.remove(idx);
                    }
                    let mut replaced = before.clone();
                    replaced.remove(idx);
                    let eq = |a: &Vec<Value>, b: &Vec<Value>| a.len() == b.len() && a.iter().zip(b).all(|(x, y)| same(x, y));
                    if !eq(&rest, &before) && !eq(&rest, &replaced) {
                        self.fail("set_list_entry_at", ArgClass::Valid, "other-elements-disturbed", "the other elements changed or were reordered".into());
                    }
                    self.expect_no_error("set_list_entry_at", ArgClass::Valid);
                    // the length is not asserted (the documentation says both 'set' and 'insert at'): adopt what happened
                    self.slots[li.unwrap()].mirror = Value::make_list(after);
                } else {
                    let c = if class != ArgClass::Valid { class } else if eclass != ArgClass::Valid { eclass } else { ArgClass::OutOfRange };
                    if r != ResultType::ERR {
                        self.fail("set_list_entry_at", c, "no-sentinel", format!("{r:?}"));
                    }
                    self.expect_error("set_list_entry_at", c);
                }
            }
            _ => {
                let len = li.map(|i| if let Value::List(l) = &self.slots[i].mirror { l.len() } else { 0 }).unwrap_or(0);
                let oob = self.rng.chance(1, 4) || len == 0;
                let idx = if oob { len + self.rng.below(3) } else { self.rng.below(len) };
                self.log.push(format!("remove_list_entry_at list#{li:?}({}) idx {idx} len {len}", class.name()));
                let r = haystack_value_remove_list_entry_at(p, idx);
                let ok = class == ArgClass::Valid && li.is_some() && !oob;
                if ok {
                    if let Value::List(l) = &mut self.slots[li.unwrap()].mirror {
                        l.remove(idx);
                    }
                    if r != ResultType::TRUE {
                        self.fail("remove_list_entry_at", ArgClass::Valid, "valid-call-failed", format!("{r:?}"));
                        let _ = take_err();
                    } else {
                        self.expect_no_error("remove_list_entry_at", ArgClass::Valid);
                    }
                } else {
                    let c = if class != ArgClass::Valid { class } else { ArgClass::OutOfRange };
                    if r != ResultType::ERR {
                        self.fail("remove_list_entry_at", c, "no-sentinel", format!("{r:?}"));
                    }
                    self.expect_error("remove_list_entry_at", c);
                }
            }
        }
    }

    fn key(&mut self) -> String {
        match self.rng.below(5) {
            0 => "a".into(),
            1 => "site".into(),
            2 => "dis".into(),
            3 => crate::gen::gen_key(&mut self.rng),
            _ => self.text(),
        }
    }

    unsafe fn op_dict(&mut self) {
        let (p, di, class) = self.choose(|v| v.is_dict());
        let key = self.key();
        let ck = cstr(&key);
        let key = key.replace('\0', "");
        let kmode = self.rng.below(12); // 0 null key, 1 non-utf8 key
        let kptr: *const c_char = match kmode {
            0 => null(),
            1 => BAD_UTF8.as_ptr() as *const c_char,
            _ => ck.as_ptr(),
        };
        let kclass = match kmode {
            0 => ArgClass::Null,
            1 => ArgClass::NonUtf8,
            _ => ArgClass::Valid,
        };
        match self.rng.below(6) {
            0 => self.usize_getter("get_dict_len", haystack_value_get_dict_len, |v| v.is_dict(), |v| if let Value::Dict(d) = v { Some(d.len()) } else { None }),
            1 | 2 => {
                let (e, ei, eclass) = if self.rng.chance(1, 8) || self.slots.is_empty() { (null_mut(), None, ArgClass::Null) } else { let i = self.rng.below(self.slots.len()); (self.slots[i].ptr, Some(i), ArgClass::Valid) };
                if di.is_some() && di == ei {
                    return;
                }
                self.log.push(format!("insert_dict_entry dict#{di:?}({}) key {key:?}({}) entry#{ei:?}", class.name(), kclass.name()));
                let r = haystack_value_insert_dict_entry(p, kptr, e);
                let ok = class == ArgClass::Valid && kclass == ArgClass::Valid && eclass == ArgClass::Valid;
                if ok {
                    let ev = self.slots[ei.unwrap()].mirror.clone();
                    if let Value::Dict(d) = &mut self.slots[di.unwrap()].mirror {
                        d.insert(key.clone(), ev);
                    }
                    if r != ResultType::TRUE {
                        self.fail("insert_dict_entry", ArgClass::Valid, "valid-call-failed", format!("{r:?}"));
                        let _ = take_err();
                    } else {
                        self.expect_no_error("insert_dict_entry", ArgClass::Valid);
                    }
                } else {
                    let c = [class, kclass, eclass].into_iter().find(|c| *c != ArgClass::Valid).unwrap();
                    if r != ResultType::ERR {
                        self.fail("insert_dict_entry", c, "no-sentinel", format!("{r:?}"));
                    }
                    self.expect_error("insert_dict_entry", c);
                }
            }
            3 => {
                let null_result = self.rng.chance(1, 10);
                let mut out: *const Value = null();
                self.log.push(format!("get_dict_entry dict#{di:?}({}) key {key:?}({})", class.name(), kclass.name()));
                let r = haystack_value_get_dict_entry(p, kptr, if null_result { null_mut() } else { &mut out });
                let ok = class == ArgClass::Valid && kclass == ArgClass::Valid && !null_result;
                if ok {
                    let want = if let Value::Dict(d) = &self.slots[di.unwrap()].mirror { d.get(&key).cloned() } else { None };
                    match want {
                        Some(w) => {
                            if r != ResultType::TRUE || out.is_null() || !same(&*out, &w) {
                                self.fail("get_dict_entry", ArgClass::Valid, "wrong-entry", format!("result {r:?}"));
                            }
                        }
                        None => {
                            if r != ResultType::FALSE {
                                self.fail("get_dict_entry", ArgClass::Valid, "missing-key-not-false", format!("result {r:?}"));
                            }
                        }
                    }
                    self.expect_no_error("get_dict_entry", ArgClass::Valid);
                } else {
                    let c = if class != ArgClass::Valid { class } else if kclass != ArgClass::Valid { kclass } else { ArgClass::Null };
                    if r != ResultType::ERR {
                        self.fail("get_dict_entry", c, "no-sentinel", format!("{r:?}"));
                    }
                    self.expect_error("get_dict_entry", c);
                }
            }
            4 => {
                self.log.push(format!("remove_dict_entry dict#{di:?}({}) key {key:?}({})", class.name(), kclass.name()));
                let r = haystack_value_remove_dict_entry(p, kptr);
                let ok = class == ArgClass::Valid && kclass == ArgClass::Valid;
                if ok {
                    if let Value::Dict(d) = &mut self.slots[di.unwrap()].mirror {
                        d.remove(&key);
                    }
                    if r != ResultType::TRUE {
                        self.fail("remove_dict_entry", ArgClass::Valid, "valid-call-failed", format!("{r:?}"));
                        let _ = take_err();
                    } else {
                        self.expect_no_error("remove_dict_entry", ArgClass::Valid);
                    }
                } else {
                    let c = if class != ArgClass::Valid { class } else { kclass };
                    if r != ResultType::ERR {
                        self.fail("remove_dict_entry", c, "no-sentinel", format!("{r:?}"));
                    }
                    self.expect_error("remove_dict_entry", c);
                }
            }
            _ => {
                // keys into an out value
                let null_result = self.rng.chance(1, 10);
                let (out, reused) = if null_result { (null_mut(), None) } else { self.holder(&[di]) };
                let before = if out.is_null() { Value::Null } else { (*out).clone() };
                self.log.push(format!("get_dict_keys dict#{di:?}({}) holder#{reused:?}", class.name()));
                let r = haystack_value_get_dict_keys(p, out);
                let ok = class == ArgClass::Valid && !null_result;
                if ok {
                    let want: Value = if let Value::Dict(d) = &self.slots[di.unwrap()].mirror { Value::make_list(d.keys().map(|k| Value::make_str(k)).collect()) } else { Value::Null };
                    if r != ResultType::TRUE || !same(&*out, &want) {
                        self.fail("get_dict_keys", ArgClass::Valid, "wrong-keys", format!("result {r:?}: {}", truncate(&observe(&*out).show(), 200)));
                    }
                    self.expect_no_error("get_dict_keys", ArgClass::Valid);
                } else {
                    let c = if class != ArgClass::Valid { class } else { ArgClass::Null };
                    if r != ResultType::ERR {
                        self.fail("get_dict_keys", c, "no-sentinel", format!("{r:?}"));
                    }
                    if !out.is_null() && !same(&*out, &before) {
                        self.fail("get_dict_keys", c, "result-written-on-failure", "the result value was modified by a failed call".into());
                    }
                    self.expect_error("get_dict_keys", c);
                }
                self.settle_holder(out, reused);
            }
        }
    }

    unsafe fn op_grid(&mut self) {
        match self.rng.below(4) {
            0 => self.usize_getter("get_grid_len", haystack_value_get_grid_len, |v| v.is_grid(), |v| if let Value::Grid(g) = v { Some(g.len()) } else { None }),
            1 | 2 => {
                let (p, li, class) = self.choose(|v| v.is_list());
                let with_meta = self.rng.coin();
                let (mp, mi, mclass) = if with_meta { self.choose(|v| v.is_dict()) } else { (null_mut(), None, ArgClass::Valid) };
                self.log.push(format!("make_grid_from_rows list#{li:?}({}) meta#{mi:?}({})", class.name(), mclass.name()));
                let r = if with_meta { haystack_value_make_grid_from_rows_with_meta(p, mp) } else { haystack_value_make_grid_from_rows(p) };
                // Rust side: rows = the Dict elements of the list; at least one is required
                let rows: Option<Vec<Dict>> = li.and_then(|i| if let Value::List(l) = &self.slots[i].mirror { Some(l.iter().filter_map(|v| if let Value::Dict(d) = v { Some(d.clone()) } else { None }).collect()) } else { None });
                let meta: Option<Dict> = mi.and_then(|i| if let Value::Dict(d) = &self.slots[i].mirror { Some(d.clone()) } else { None });
                let want = match (rows, with_meta, meta) {
                    (Some(rows), false, _) if !rows.is_empty() => Some(Value::make_grid(Grid::make_from_dicts(rows))),
                    (Some(rows), true, Some(m)) if !rows.is_empty() => Some(Value::make_grid(Grid::make_from_dicts_with_meta(rows, m))),
                    _ => None,
                };
                let op = if with_meta { "make_grid_from_rows_with_meta" } else { "make_grid_from_rows" };
                match want {
                    Some(w) => self.expect_ok_make(op, r, w),
                    None => {
                        let c = if class != ArgClass::Valid { class } else if mclass != ArgClass::Valid { mclass } else { ArgClass::OutOfRange };
                        self.expect_fail_make(op, c, r);
                    }
                }
            }
            _ => {
                let (p, gi, class) = self.choose(|v| v.is_grid());
                let len = gi.map(|i| if let Value::Grid(g) = &self.slots[i].mirror { g.len() } else { 0 }).unwrap_or(0);
                let oob = self.rng.chance(1, 4) || len == 0;
                let idx = if oob { len + self.rng.below(3) } else { self.rng.below(len) };
                let null_result = self.rng.chance(1, 10);
                let (out, reused) = if null_result { (null_mut(), None) } else { self.holder(&[gi]) };
                self.log.push(format!("get_grid_row_at grid#{gi:?}({}) idx {idx} len {len} holder#{reused:?}", class.name()));
                let r = haystack_value_get_grid_row_at(p, idx, out);
                let ok = class == ArgClass::Valid && gi.is_some() && !oob && !null_result;
                if ok {
                    let want = if let Value::Grid(g) = &self.slots[gi.unwrap()].mirror { Value::make_dict(g.rows[idx].clone()) } else { Value::Null };
                    if r != ResultType::TRUE || !same(&*out, &want) {
                        self.fail("get_grid_row_at", ArgClass::Valid, "wrong-row", format!("result {r:?}"));
                    }
                    self.expect_no_error("get_grid_row_at", ArgClass::Valid);
                } else {
                    let c = if class != ArgClass::Valid { class } else if null_result { ArgClass::Null } else { ArgClass::OutOfRange };
                    if r != ResultType::ERR {
                        self.fail("get_grid_row_at", c, "no-sentinel", format!("{r:?}"));
                    }
                    self.expect_error("get_grid_row_at", c);
                }
                self.settle_holder(out, reused);
            }
        }
    }

    unsafe fn op_codec(&mut self) {
        match self.rng.below(4) {
            0 | 1 => {
                let zinc = self.rng.coin();
                let op = if zinc { "to_zinc_string" } else { "to_json_string" };
                let (p, i, class) = if self.slots.is_empty() || self.rng.chance(1, 10) { (null_mut(), None, ArgClass::Null) } else { let i = self.rng.below(self.slots.len()); (self.slots[i].ptr, Some(i), ArgClass::Valid) };
                self.log.push(format!("{op} #{i:?}"));
                let got = take_cstr(if zinc { haystack_value_to_zinc_string(p) } else { haystack_value_to_json_string(p) });
                match i {
                    Some(i) => {
                        let m = &self.slots[i].mirror;
                        let want = if zinc { to_zinc_string(m).ok() } else { serde_json::to_string(m).ok() };
                        match want {
                            Some(w) if !w.contains('\0') => {
                                if got.as_deref() != Some(w.as_str()) {
                                    self.fail(op, class, "text-differs-from-rust", format!("C {:?} Rust {:?}", got.map(|g| truncate(&g, 120)), truncate(&w, 120)));
                                }
                                self.expect_no_error(op, class);
                            }
                            _ => {
                                if got.is_some() {
                                    self.fail(op, class, "unrepresentable-text-returned", "text with NUL returned".into());
                                }
                                self.expect_error(op, class);
                            }
                        }
                    }
                    None => {
                        if got.is_some() {
                            self.fail(op, class, "no-sentinel", "returned text for a null value".into());
                        }
                        self.expect_error(op, class);
                    }
                }
            }
            _ => {
                let zinc = self.rng.coin();
                let op = if zinc { "from_zinc_string" } else { "from_json_string" };
                let mode = self.rng.below(8);
                let text: String = match mode {
                    0 | 1 => String::new(),
                    2 => {
                        // invalid text
                        if zinc { "[1,2".to_string() } else { "{\"_kind\":\"number\"}".to_string() }
                    }
                    3 => {
                        if zinc { "@".to_string() } else { "{\"_kind\":\"\\u0000\"}".to_string() }
                    }
                    // values whose text cannot be a C string: a NUL written as a JSON / Zinc escape ends up inside a Ref id,
                    // Symbol, tag name, XStr type, Uri or Str of the decoded value
                    4 => {
                        if zinc {
                            // (also: a byte order mark in front of valid Zinc, which the Rust decoder rejects)
                            (*self.rng.pick::<&str>(&["\"a\\u0000b\"", "`u\\u0000`", "{a:\"x\\u0000\"}", "[\"\\u0000\",1]", "\u{feff}42kW", "\u{feff}ver:\"3.0\"\na\n1\n", " 42kW", "42kW "])).to_string()
                        } else {
                            (*self.rng.pick::<&str>(&[
                                "{\"_kind\":\"ref\",\"val\":\"a\\u0000b\"}",
                                "{\"_kind\":\"ref\",\"val\":\"a\",\"dis\":\"d\\u0000\"}",
                                "{\"_kind\":\"symbol\",\"val\":\"s\\u0000\"}",
                                "{\"a\\u0000\":1,\"b\":{\"_kind\":\"marker\"}}",
                                "{\"_kind\":\"xstr\",\"type\":\"T\\u0000\",\"val\":\"x\\u0000\"}",
                                "{\"_kind\":\"uri\",\"val\":\"u\\u0000\"}",
                                "\"s\\u0000\"",
                                "[{\"_kind\":\"ref\",\"val\":\"\\u0000\"}]",
                                // rows that carry tags which are not columns, duplicate columns, no columns at all
                                "{\"_kind\":\"grid\",\"meta\":{\"ver\":\"3.0\"},\"cols\":[{\"name\":\"a\"}],\"rows\":[{\"a\":1,\"extra\":{\"_kind\":\"marker\"}},{\"other\":\"x\"}]}",
                                "{\"_kind\":\"grid\",\"meta\":{\"ver\":\"3.0\"},\"cols\":[{\"name\":\"a\"},{\"name\":\"a\"}],\"rows\":[{\"a\":1}]}",
                                "{\"_kind\":\"grid\",\"meta\":{\"ver\":\"3.0\"},\"cols\":[],\"rows\":[{\"a\":1},{}]}",
                                "\u{feff}{\"a\":1}",
                                "{\"_kind\":\"grid\",\"meta\":{\"ver\":\"3.0\"},\"cols\":[{\"name\":\"c\\u0000\"}],\"rows\":[{\"c\\u0000\":1}]}",
                            ]))
                            .to_string()
                        }
                    }
                    _ => {
                        // text of a value the Rust encoder produces
                        let m = crate::gen::gen_value(&mut self.rng, 2);
                        let v = crate::bridge::to_value_with(&m, 0);
                        let t = if zinc { to_zinc_string(&v).unwrap_or_default() } else { serde_json::to_string(&v).unwrap_or_default() };
                        t.replace('\0', "")
                    }
                };
                let c = cstr(&text);
                let (ptr, class): (*const c_char, ArgClass) = match mode {
                    0 => (null(), ArgClass::Null),
                    1 => (BAD_UTF8.as_ptr() as *const c_char, ArgClass::NonUtf8),
                    _ => (c.as_ptr(), ArgClass::Valid),
                };
                self.log.push(format!("{op} {}({})", truncate(&text, 60), class.name()));
                let r = if zinc { haystack_value_from_zinc_string(ptr) } else { haystack_value_from_json_string(ptr) };
                let want: Option<Value> = if class != ArgClass::Valid {
                    None
                } else if zinc {
                    libhaystack::encoding::zinc::decode::from_str(&text).ok()
                } else {
                    serde_json::from_str::<Value>(&text).ok()
                };
                match want {
                    Some(w) => self.expect_ok_make(op, r, w),
                    None => self.expect_fail_make(op, if class == ArgClass::Valid { ArgClass::InvalidText } else { class }, r),
                }
            }
        }
    }

    /// A filter written from the data that is live right now (a tag of some dict or grid row, compared with its own
    /// value or merely tested), so that match / first-match / match-all regularly select something.
    fn filter_from_live_data(&mut self) -> String {
        fn ident(k: &str) -> bool {
            let mut c = k.chars();
            matches!(c.next(), Some(f) if f.is_ascii_lowercase()) && c.all(|x| x.is_ascii_alphanumeric() || x == '_')
        }
        let mut recs: Vec<Dict> = Vec::new();
        for s in &self.slots {
            match &s.mirror {
                Value::Dict(d) => recs.push(d.clone()),
                Value::Grid(g) => recs.extend(g.rows.iter().cloned()),
                _ => {}
            }
        }
        let mut terms: Vec<String> = Vec::new();
        for _ in 0..1 + self.rng.below(2) {
            if recs.is_empty() {
                break;
            }
            let d = &recs[self.rng.below(recs.len())];
            let keys: Vec<&String> = d.keys().filter(|k| ident(k)).collect();
            if keys.is_empty() {
                continue;
            }
            let k = keys[self.rng.below(keys.len())].clone();
            let v = d.get(&k).cloned().unwrap_or(Value::Null);
            let lit = match &v {
                Value::Number(n) if n.value.is_finite() => Some(v.to_string()),
                Value::Bool(_) | Value::Str(_) | Value::Ref(_) | Value::Uri(_) | Value::Symbol(_) | Value::Date(_) | Value::Time(_) => Some(v.to_string()),
                _ => None,
            };
            terms.push(match (lit, self.rng.below(4)) {
                (Some(l), 0 | 1) => format!("{k} == {l}"),
                (Some(l), 2) => format!("{k} >= {l}"),
                _ => k,
            });
        }
        if terms.is_empty() {
            return "site".into();
        }
        let j = if self.rng.coin() { " and " } else { " or " };
        terms.join(j)
    }

    unsafe fn op_filter(&mut self) {
        match self.rng.below(5) {
            0 | 1 => {
                let mode = self.rng.below(8);
                let text: String = match mode {
                    0 | 1 => String::new(),
                    2 => "a and".into(),
                    3 => "(((".into(),
                    // (a live Ref or Symbol may carry a NUL, which a C string cannot: both sides get the text without it)
                    4 | 5 => self.filter_from_live_data().replace('\0', ""),
                    _ => {
                        let f = crate::reffilter::gen_or(&mut self.rng, 1, true);
                        crate::reffilter::print_filter(&mut self.rng, &f, false).replace('\0', "")
                    }
                };
                let c = cstr(&text);
                let (ptr, class): (*const c_char, ArgClass) = match mode {
                    0 => (null(), ArgClass::Null),
                    1 => (BAD_UTF8.as_ptr() as *const c_char, ArgClass::NonUtf8),
                    _ => (c.as_ptr(), ArgClass::Valid),
                };
                self.log.push(format!("filter_parse {}({})", truncate(&text, 60), class.name()));
                let r = haystack_filter_parse(ptr);
                let want = if class == ArgClass::Valid { Filter::try_from(text.as_str()).ok() } else { None };
                match (r, want) {
                    (Some(b), Some(w)) => {
                        if *b != w {
                            self.fail("filter_parse", class, "filter-differs-from-rust", text.clone());
                        }
                        self.expect_no_error("filter_parse", class);
                        self.filters.push(FSlot { ptr: Box::into_raw(b), text });
                    }
                    (None, None) => self.expect_error("filter_parse", if class == ArgClass::Valid { ArgClass::InvalidText } else { class }),
                    (Some(b), None) => {
                        self.fail("filter_parse", class, "invalid-text-accepted", text);
                        haystack_filter_destroy(Box::into_raw(b));
                    }
                    (None, Some(_)) => {
                        let e = take_err();
                        self.fail("filter_parse", class, "valid-text-rejected", format!("{text}: {e:?}"));
                    }
                }
            }
            2 => {
                let fi = if self.filters.is_empty() || self.rng.chance(1, 10) { None } else { Some(self.rng.below(self.filters.len())) };
                let fptr = fi.map_or(null_mut(), |i| self.filters[i].ptr);
                let (p, di, class) = self.choose(|v| v.is_dict());
                self.log.push(format!("filter_match_dict filter#{fi:?} dict#{di:?}({})", class.name()));
                let r = haystack_filter_match_dict(fptr, p);
                if fi.is_some() && class == ArgClass::Valid {
                    let f = Filter::try_from(self.filters[fi.unwrap()].text.as_str()).unwrap();
                    let want = if let Value::Dict(d) = &self.slots[di.unwrap()].mirror { d.filter(&f) } else { false };
                    let wr = if want { ResultType::TRUE } else { ResultType::FALSE };
                    if r != wr {
                        self.fail("filter_match_dict", class, "result-differs-from-rust", format!("{r:?} vs {wr:?} for {}", self.filters[fi.unwrap()].text));
                    }
                    self.expect_no_error("filter_match_dict", class);
                } else {
                    let c = if fi.is_none() { ArgClass::Null } else { class };
                    if r != ResultType::ERR {
                        self.fail("filter_match_dict", c, "no-sentinel", format!("{r:?}"));
                    }
                    self.expect_error("filter_match_dict", c);
                }
            }
            _ => {
                let all = self.rng.coin();
                let op = if all { "filter_match_all_grid" } else { "filter_first_match_in_grid" };
                let fi = if self.filters.is_empty() || self.rng.chance(1, 10) { None } else { Some(self.rng.below(self.filters.len())) };
                let fptr = fi.map_or(null_mut(), |i| self.filters[i].ptr);
                let (p, gi, class) = self.choose(|v| v.is_grid());
                let null_result = self.rng.chance(1, 10);
                let (out, reused) = if null_result { (null_mut(), None) } else { self.holder(&[gi]) };
                self.log.push(format!("{op} filter#{fi:?} grid#{gi:?}({}) holder#{reused:?}", class.name()));
                let r = if all { haystack_filter_match_all_grid(fptr, p, out) } else { haystack_filter_first_match_in_grid(fptr, p, out) };
                if fi.is_some() && class == ArgClass::Valid && !null_result {
                    let f = Filter::try_from(self.filters[fi.unwrap()].text.as_str()).unwrap();
                    let g = if let Value::Grid(g) = &self.slots[gi.unwrap()].mirror { g.clone() } else { Grid::default() };
                    if all {
                        let rows: Vec<Dict> = g.filter_all(&f).into_iter().cloned().collect();
                        let wr = if rows.is_empty() { ResultType::FALSE } else { ResultType::TRUE };
                        if !rows.is_empty() {
                            self.ctx.stratum("capi:filter-grid:some-row-matches");
                        }
                        let got_rows: Vec<Dict> = if let Value::Grid(o) = &*out { o.rows.clone() } else { vec![] };
                        let same_rows = got_rows.len() == rows.len() && got_rows.iter().zip(&rows).all(|(a, b)| same(&Value::make_dict(a.clone()), &Value::make_dict(b.clone())));
                        // the whole answer: the grid the Rust API builds from the matching rows (columns from the rows, the source grid's meta)
                        let want_grid = Value::make_grid(match &g.meta {
                            Some(m) => Grid::make_from_dicts_with_meta(rows.clone(), m.clone()),
                            None => Grid::make_from_dicts(rows.clone()),
                        });
                        if r != wr || !(*out).is_grid() || !same_rows {
                            self.fail(op, class, "result-differs-from-rust", format!("{r:?} vs {wr:?}; {} rows vs {}", got_rows.len(), rows.len()));
                        } else if !same(&*out, &want_grid) {
                            self.fail(op, class, "result-grid-differs-from-rust", format!("{} rows; columns or meta differ", rows.len()));
                        }
                    } else {
                        match Filtered::filter(&g, &f) {
                            Some(d) => {
                                self.ctx.stratum("capi:filter-grid:some-row-matches");
                                if r != ResultType::TRUE || !same(&*out, &Value::make_dict(d.clone())) {
                                    self.fail(op, class, "result-differs-from-rust", format!("{r:?}"));
                                }
                            }
                            None => {
                                if r != ResultType::FALSE {
                                    self.fail(op, class, "result-differs-from-rust", format!("{r:?} for no match"));
                                }
                            }
                        }
                    }
                    self.expect_no_error(op, class);
                } else {
                    let c = if fi.is_none() || null_result { ArgClass::Null } else { class };
                    if r != ResultType::ERR {
                        self.fail(op, c, "no-sentinel", format!("{r:?}"));
                    }
                    self.expect_error(op, c);
                }
                self.settle_holder(out, reused);
            }
        }
    }

    unsafe fn op_datetime(&mut self) {
        use chrono::{NaiveDateTime, TimeZone, Utc};
        match self.rng.below(4) {
            0 | 1 => {
                let tzmode = self.rng.below(6); // 0 utc fn, 1 null tz, 2 unknown tz, 3 non-utf8, else valid
                let (dp, di, dclass) = self.choose(|v| v.is_date());
                let (tp, ti, tclass) = self.choose(|v| v.is_time());
                let zones = crate::bridge::unambiguous_zones();
                let z = zones[self.rng.below(zones.len())];
                let zname = if self.rng.coin() { z.name().to_string() } else { crate::bridge::short_zone_name(z.name()).to_string() };
                let cz = cstr(&zname);
                let bad = cstr(*self.rng.pick::<&str>(&["Nowhere/Land", "", " ", "/", "New_York ", "utc"]));
                let (zp, zclass): (*const c_char, ArgClass) = match tzmode {
                    1 => (null(), ArgClass::Null),
                    2 => (bad.as_ptr(), ArgClass::InvalidText),
                    3 => (BAD_UTF8.as_ptr() as *const c_char, ArgClass::NonUtf8),
                    _ => (cz.as_ptr(), ArgClass::Valid),
                };
                let op = if tzmode == 0 { "make_utc_datetime" } else { "make_tz_datetime" };
                self.log.push(format!("{op} date#{di:?}({}) time#{ti:?}({}) tz {zname}({})", dclass.name(), tclass.name(), zclass.name()));
                let r = if tzmode == 0 { haystack_value_make_utc_datetime(dp, tp) } else { haystack_value_make_tz_datetime(dp, tp, zp) };
                let ok = dclass == ArgClass::Valid && tclass == ArgClass::Valid && (tzmode == 0 || zclass == ArgClass::Valid);
                if ok {
                    let d = Date::try_from(&self.slots[di.unwrap()].mirror).unwrap();
                    let t = Time::try_from(&self.slots[ti.unwrap()].mirror).unwrap();
                    let utc = Utc.from_utc_datetime(&NaiveDateTime::new(*d, *t));
                    let want = if tzmode == 0 { Value::make_datetime(DateTime::from(utc)) } else { Value::make_datetime(DateTime::from(utc.with_timezone(&z))) };
                    self.expect_ok_make(op, r, want);
                } else {
                    let c = [dclass, tclass, zclass].into_iter().find(|c| *c != ArgClass::Valid).unwrap_or(ArgClass::Null);
                    self.expect_fail_make(op, c, r);
                }
            }
            2 => {
                let (p, i, class) = self.choose(|v| v.is_datetime());
                let utc = self.rng.coin();
                let which_time = self.rng.coin();
                let null_result = self.rng.chance(1, 10);
                let (out, reused) = if null_result { (null_mut(), None) } else { self.holder(&[i]) };
                let op = if which_time { "get_datetime_time" } else { "get_datetime_date" };
                self.log.push(format!("{op} #{i:?}({}) utc={utc}", class.name()));
                let r = if which_time { haystack_value_get_datetime_time(p, utc, out) } else { haystack_value_get_datetime_date(p, utc, out) };
                let ok = class == ArgClass::Valid && !null_result;
                if ok {
                    let dt = DateTime::try_from(&self.slots[i.unwrap()].mirror).unwrap();
                    let naive = if utc { dt.naive_utc() } else { dt.naive_local() };
                    let want = if which_time { Value::make_time(Time::from(naive.time())) } else { Value::make_date(Date::from(naive.date())) };
                    if r != ResultType::TRUE || !same(&*out, &want) {
                        self.fail(op, class, "wrong-value", format!("{r:?}: {} vs {}", observe(&*out).show(), observe(&want).show()));
                    }
                    self.expect_no_error(op, class);
                } else {
                    let c = if class != ArgClass::Valid { class } else { ArgClass::Null };
                    if r != ResultType::ERR {
                        self.fail(op, c, "no-sentinel", format!("{r:?}"));
                    }
                    self.expect_error(op, c);
                }
                self.settle_holder(out, reused);
            }
            _ => self.str_getter("get_datetime_timezone", haystack_value_get_datetime_timezone, |v| v.is_datetime(), |v| if let Value::DateTime(d) = v { Some(Some(crate::bridge::observe_datetime(d).tz)) } else { None }),
        }
    }

    /// Borrowed entry pointers used as arguments while their container is alive and unmodified: a pointer
    /// obtained from get_list_entry_at / get_dict_entry is pushed / inserted into the same or another container.
    unsafe fn op_borrowed(&mut self) {
        let from_list = self.rng.coin();
        let src = if from_list { self.pick_kind(|v| matches!(v, Value::List(l) if !l.is_empty())) } else { self.pick_kind(|v| matches!(v, Value::Dict(d) if !d.is_empty())) };
        let Some(si) = src else { return };
        let mut borrowed: *const Value = null();
        let expect: Value;
        if from_list {
            let len = if let Value::List(l) = &self.slots[si].mirror { l.len() } else { 0 };
            let idx = self.rng.below(len);
            if haystack_value_get_list_entry_at(self.slots[si].ptr, idx, &mut borrowed) != ResultType::TRUE {
                let _ = take_err();
                return;
            }
            expect = if let Value::List(l) = &self.slots[si].mirror { l[idx].clone() } else { Value::Null };
        } else {
            let key = if let Value::Dict(d) = &self.slots[si].mirror { d.keys().nth(self.rng.below(d.len())).cloned().unwrap() } else { String::new() };
            if key.contains('\0') {
                return;
            }
            let ck = cstr(&key);
            if haystack_value_get_dict_entry(self.slots[si].ptr, ck.as_ptr(), &mut borrowed) != ResultType::TRUE {
                let _ = take_err();
                return;
            }
            expect = if let Value::Dict(d) = &self.slots[si].mirror { d[&key].clone() } else { Value::Null };
        }
        // destination: the same container (half of the time) or another list/dict
        let same_container = self.rng.coin();
        let di = if same_container { Some(si) } else { self.pick_kind(|v| v.is_list() || v.is_dict()) };
        let Some(di) = di else { return };
        let dptr = self.slots[di].ptr;
        self.log.push(format!("borrowed entry of #{si} -> container #{di}"));
        if self.slots[di].mirror.is_list() {
            let r = haystack_value_push_list_entry(dptr, borrowed);
            if let Value::List(l) = &mut self.slots[di].mirror {
                l.push(expect);
            }
            if r != ResultType::TRUE {
                self.fail("push_list_entry", ArgClass::Valid, "borrowed-entry-rejected", format!("{r:?}"));
                let _ = take_err();
            }
        } else {
            let k = cstr("borrowedKey");
            let r = haystack_value_insert_dict_entry(dptr, k.as_ptr(), borrowed);
            if let Value::Dict(d) = &mut self.slots[di].mirror {
                d.insert("borrowedKey".into(), expect);
            }
            if r != ResultType::TRUE {
                self.fail("insert_dict_entry", ArgClass::Valid, "borrowed-entry-rejected", format!("{r:?}"));
                let _ = take_err();
            }
        }
        self.expect_no_error("borrowed-entry", ArgClass::Valid);
    }

    /// The error slot holds the message of the LATEST failure: a failure left unread must be overwritten by the
    /// next one. The expected text is the library's own message for the same failing call made in isolation.
    unsafe fn op_error_overwrite(&mut self) {
        let _ = take_err();
        // failing call B in isolation
        let b = |w: &mut World| -> Option<String> {
            let _ = w;
            let r = haystack_value_get_list_len(null_mut());
            debug_assert_eq!(r, usize::MAX);
            take_err()
        };
        let mb = b(self);
        // failing call A, left unread: a different failure with a different message
        let bad = cstr("[1,2");
        let a = haystack_value_from_zinc_string(bad.as_ptr());
        if let Some(v) = a {
            haystack_value_destroy(Box::into_raw(v));
        }
        let ma_probe = {
            // what A alone reports (read it, then repeat A unread)
            let m = take_err();
            let a2 = haystack_value_from_zinc_string(bad.as_ptr());
            if let Some(v) = a2 {
                haystack_value_destroy(Box::into_raw(v));
            }
            m
        };
        // now B again: its message must replace A's unread one
        let r = haystack_value_get_list_len(null_mut());
        let got = take_err();
        self.log.push("error-overwrite: failing A unread, failing B, read".into());
        if r != usize::MAX {
            self.fail("get_list_len", ArgClass::Null, "no-sentinel", format!("{r}"));
        }
        if mb.is_none() || got.is_none() {
            self.fail("last_error_message", ArgClass::Null, "failure-without-error-message", format!("isolated {mb:?}, after unread failure {got:?}"));
        } else if got != mb && ma_probe != mb {
            self.fail("last_error_message", ArgClass::Valid, "stale-message-after-unread-failure", format!("after an unread failure ({ma_probe:?}) the next failure's message is {got:?}, the same call alone reports {mb:?}"));
        }
        if let Some(m) = take_err() {
            self.fail("last_error_message", ArgClass::Valid, "error-not-cleared", m);
        }
    }

    unsafe fn op_destroy(&mut self) {
        if self.slots.len() > 6 && self.rng.chance(2, 3) {
            let i = self.rng.below(self.slots.len());
            let s = self.slots.swap_remove(i);
            self.log.push(format!("value_destroy #{i}"));
            haystack_value_destroy(s.ptr);
            self.expect_no_error("value_destroy", ArgClass::Valid);
        } else if self.filters.len() > 2 {
            let i = self.rng.below(self.filters.len());
            let f = self.filters.swap_remove(i);
            self.log.push(format!("filter_destroy #{i}"));
            haystack_filter_destroy(f.ptr);
        }
    }

    pub unsafe fn step(&mut self) {
        self.ops += 1;
        let before = self.ctx.violations.len();
        match self.rng.below(22) {
            21 => self.op_error_overwrite(),
            20 => self.op_borrowed(),
            0..=3 => self.op_make(),
            4 => self.op_predicates(),
            5..=7 => self.op_getter(),
            8..=10 => self.op_list(),
            11..=13 => self.op_dict(),
            14 => self.op_grid(),
            15 => self.op_codec(),
            16 => self.op_filter(),
            17 => self.op_datetime(),
            18 => self.op_destroy(),
            _ => self.op_make(),
        }
        // every failure must leave all handles unchanged; every success changes only what the model changed
        if self.ops % 4 == 0 || self.ctx.violations.len() != before {
            self.check_all("after-op", ArgClass::Valid);
        }
    }

    /// release everything exactly once (the ownership protocol)
    pub unsafe fn teardown(&mut self) {
        self.check_all("teardown", ArgClass::Valid);
        for s in self.slots.drain(..) {
            haystack_value_destroy(s.ptr);
        }
        for f in self.filters.drain(..) {
            haystack_filter_destroy(f.ptr);
        }
        let _ = take_err();
    }
}

/// Every pointer parameter of every non-destroy function as null, one at a time: sentinel + error, no signal.
pub unsafe fn null_sweep(ctx: &mut Ctx) {
    let list = Box::into_raw(haystack_value_make_list());
    let dict = Box::into_raw(haystack_value_make_dict());
    let grid = Box::into_raw(haystack_value_make_grid());
    let date = own(haystack_value_make_date(2020, 1, 2));
    let time = own(haystack_value_make_time(1, 2, 3));
    let out = Box::into_raw(haystack_value_init());
    let k = cstr("a");
    let z = cstr("UTC");
    let fs = cstr("a");
    let filt = haystack_filter_parse(fs.as_ptr()).map(Box::into_raw).unwrap_or(null_mut());
    let _ = take_err();
    let mut entry: *const Value = null();
    let n: *mut Value = null_mut();
    let cn: *const c_char = null();
    macro_rules! sweep {
        ($name:expr, $call:expr, $sentinel:expr) => {{
            ctx.eval("null-sweep", crate::prng::hash_str($name), true);
            let ok = $sentinel($call);
            let err = take_err();
            if !ok {
                ctx.violation(&format!("capi:null-sweep:{}:no-sentinel", $name), &format!("{} with a null pointer argument did not return its failure sentinel", $name), json!({}));
            }
            if err.is_none() {
                ctx.violation(&format!("capi:null-sweep:{}:no-error", $name), &format!("{} with a null pointer argument reported no error", $name), json!({}));
            }
        }};
    }
    let is_false = |b: bool| !b;
    let is_none = |b: Option<Box<Value>>| match b {
        None => true,
        Some(b) => {
            drop(b);
            false
        }
    };
    let is_err = |r: ResultType| r == ResultType::ERR;
    let is_nullp = |p: *const c_char| {
        if p.is_null() {
            true
        } else {
            haystack_string_destroy(p as *mut c_char);
            false
        }
    };
    let is_max = |u: usize| u == usize::MAX;
    let is_max32 = |u: u32| u == u32::MAX;
    let is_nan = |f: f64| f.is_nan();
    sweep!("is_null", haystack_value_is_null(n), is_false);
    sweep!("is_marker", haystack_value_is_marker(n), is_false);
    sweep!("is_na", haystack_value_is_na(n), is_false);
    sweep!("is_remove", haystack_value_is_remove(n), is_false);
    sweep!("is_bool", haystack_value_is_bool(n), is_false);
    sweep!("is_number", haystack_value_is_number(n), is_false);
    sweep!("is_coord", haystack_value_is_coord(n), is_false);
    sweep!("is_str", haystack_value_is_str(n), is_false);
    sweep!("is_ref", haystack_value_is_ref(n), is_false);
    sweep!("is_uri", haystack_value_is_uri(n), is_false);
    sweep!("is_symbol", haystack_value_is_symbol(n), is_false);
    sweep!("is_xstr", haystack_value_is_xstr(n), is_false);
    sweep!("is_time", haystack_value_is_time(n), is_false);
    sweep!("is_date", haystack_value_is_date(n), is_false);
    sweep!("is_datetime", haystack_value_is_datetime(n), is_false);
    sweep!("is_list", haystack_value_is_list(n), is_false);
    sweep!("is_dict", haystack_value_is_dict(n), is_false);
    sweep!("is_grid", haystack_value_is_grid(n), is_false);
    sweep!("make_number_with_unit(unit)", haystack_value_make_number_with_unit(1.0, cn), is_none);
    sweep!("make_str", haystack_value_make_str(cn), is_none);
    sweep!("make_ref", haystack_value_make_ref(cn), is_none);
    sweep!("make_ref_with_dis(val)", haystack_value_make_ref_with_dis(cn, k.as_ptr()), is_none);
    sweep!("make_ref_with_dis(dis)", haystack_value_make_ref_with_dis(k.as_ptr(), cn), is_none);
    sweep!("make_uri", haystack_value_make_uri(cn), is_none);
    sweep!("make_symbol", haystack_value_make_symbol(cn), is_none);
    sweep!("make_xstr(name)", haystack_value_make_xstr(cn, k.as_ptr()), is_none);
    sweep!("make_xstr(data)", haystack_value_make_xstr(k.as_ptr(), cn), is_none);
    sweep!("make_utc_datetime(date)", haystack_value_make_utc_datetime(n, time), is_none);
    sweep!("make_utc_datetime(time)", haystack_value_make_utc_datetime(date, n), is_none);
    sweep!("make_tz_datetime(date)", haystack_value_make_tz_datetime(n, time, z.as_ptr()), is_none);
    sweep!("make_tz_datetime(time)", haystack_value_make_tz_datetime(date, n, z.as_ptr()), is_none);
    sweep!("make_tz_datetime(tz)", haystack_value_make_tz_datetime(date, time, cn), is_none);
    sweep!("get_str_value", haystack_value_get_str_value(n), is_nullp);
    sweep!("get_str_len", haystack_value_get_str_len(n), is_max);
    sweep!("get_ref_value", haystack_value_get_ref_value(n), is_nullp);
    sweep!("get_ref_value_len", haystack_value_get_ref_value_len(n), is_max);
    sweep!("get_ref_dis", haystack_value_get_ref_dis(n), is_nullp);
    sweep!("get_uri_value", haystack_value_get_uri_value(n), is_nullp);
    sweep!("get_uri_value_len", haystack_value_get_uri_value_len(n), is_max);
    sweep!("get_symbol_value", haystack_value_get_symbol_value(n), is_nullp);
    sweep!("get_symbol_value_len", haystack_value_get_symbol_value_len(n), is_max);
    sweep!("get_xstr_type", haystack_value_get_xstr_type(n), is_nullp);
    sweep!("get_xstr_value", haystack_value_get_xstr_value(n), is_nullp);
    sweep!("get_number_value", haystack_value_get_number_value(n), is_nan);
    sweep!("number_has_unit", haystack_value_number_has_unit(n), is_err);
    sweep!("get_number_unit", haystack_value_get_number_unit(n), is_nullp);
    sweep!("get_coord_lat", haystack_value_get_coord_lat(n), is_nan);
    sweep!("get_coord_long", haystack_value_get_coord_long(n), is_nan);
    sweep!("get_date_year", haystack_value_get_date_year(n), is_max32);
    sweep!("get_date_month", haystack_value_get_date_month(n), is_max32);
    sweep!("get_date_day", haystack_value_get_date_day(n), is_max32);
    sweep!("get_time_hour", haystack_value_get_time_hour(n), is_max32);
    sweep!("get_time_minutes", haystack_value_get_time_minutes(n), is_max32);
    sweep!("get_time_seconds", haystack_value_get_time_seconds(n), is_max32);
    sweep!("get_time_millis", haystack_value_get_time_millis(n), is_max32);
    sweep!("get_datetime_date(val)", haystack_value_get_datetime_date(n, true, out), is_err);
    sweep!("get_datetime_time(val)", haystack_value_get_datetime_time(n, true, out), is_err);
    sweep!("get_datetime_timezone", haystack_value_get_datetime_timezone(n), is_nullp);
    sweep!("get_list_len", haystack_value_get_list_len(n), is_max);
    sweep!("push_list_entry(val)", haystack_value_push_list_entry(n, out), is_err);
    sweep!("push_list_entry(entry)", haystack_value_push_list_entry(list, n), is_err);
    sweep!("get_list_entry_at(val)", haystack_value_get_list_entry_at(n, 0, &mut entry), is_err);
    sweep!("set_list_entry_at(val)", haystack_value_set_list_entry_at(n, 0, out), is_err);
    sweep!("remove_list_entry_at(val)", haystack_value_remove_list_entry_at(n, 0), is_err);
    sweep!("get_dict_len", haystack_value_get_dict_len(n), is_max);
    sweep!("get_dict_keys(val)", haystack_value_get_dict_keys(n, out), is_err);
    sweep!("get_dict_keys(result)", haystack_value_get_dict_keys(dict, n), is_err);
    sweep!("insert_dict_entry(val)", haystack_value_insert_dict_entry(n, k.as_ptr(), out), is_err);
    sweep!("insert_dict_entry(key)", haystack_value_insert_dict_entry(dict, cn, out), is_err);
    sweep!("insert_dict_entry(entry)", haystack_value_insert_dict_entry(dict, k.as_ptr(), n), is_err);
    sweep!("get_dict_entry(val)", haystack_value_get_dict_entry(n, k.as_ptr(), &mut entry), is_err);
    sweep!("get_dict_entry(key)", haystack_value_get_dict_entry(dict, cn, &mut entry), is_err);
    sweep!("get_dict_entry(result)", haystack_value_get_dict_entry(dict, k.as_ptr(), null_mut()), is_err);
    sweep!("remove_dict_entry(val)", haystack_value_remove_dict_entry(n, k.as_ptr()), is_err);
    sweep!("remove_dict_entry(key)", haystack_value_remove_dict_entry(dict, cn), is_err);
    sweep!("get_grid_len", haystack_value_get_grid_len(n), is_max);
    sweep!("make_grid_from_rows", haystack_value_make_grid_from_rows(n), is_none);
    sweep!("make_grid_from_rows_with_meta(rows)", haystack_value_make_grid_from_rows_with_meta(n, dict), is_none);
    sweep!("get_grid_row_at(val)", haystack_value_get_grid_row_at(n, 0, out), is_err);
    sweep!("to_zinc_string", haystack_value_to_zinc_string(n), is_nullp);
    sweep!("from_zinc_string", haystack_value_from_zinc_string(cn), is_none);
    sweep!("to_json_string", haystack_value_to_json_string(n), is_nullp);
    sweep!("from_json_string", haystack_value_from_json_string(cn), is_none);
    {
        ctx.eval("null-sweep", crate::prng::hash_str("filter_parse"), true);
        let r = haystack_filter_parse(cn);
        let err = take_err();
        if let Some(b) = r {
            haystack_filter_destroy(Box::into_raw(b));
            ctx.violation("capi:null-sweep:filter_parse:no-sentinel", "filter_parse(null) returned a filter", json!({}));
        }
        if err.is_none() {
            ctx.violation("capi:null-sweep:filter_parse:no-error", "filter_parse(null) reported no error", json!({}));
        }
    }
    sweep!("filter_match_dict(filter)", haystack_filter_match_dict(null(), dict), is_err);
    sweep!("filter_match_dict(dict)", haystack_filter_match_dict(filt, n), is_err);
    sweep!("filter_first_match_in_grid(filter)", haystack_filter_first_match_in_grid(null(), grid, out), is_err);
    sweep!("filter_first_match_in_grid(grid)", haystack_filter_first_match_in_grid(filt, n, out), is_err);
    sweep!("filter_first_match_in_grid(result)", haystack_filter_first_match_in_grid(filt, grid, n), is_err);
    sweep!("filter_match_all_grid(filter)", haystack_filter_match_all_grid(null(), grid, out), is_err);
    sweep!("filter_match_all_grid(grid)", haystack_filter_match_all_grid(filt, n, out), is_err);
    sweep!("filter_match_all_grid(result)", haystack_filter_match_all_grid(filt, grid, n), is_err);
    // the containers must be untouched by all of the above
    if !same(&*list, &Value::make_list(vec![])) || !same(&*dict, &Value::make_dict(Dict::new())) || !(*out).is_null() {
        ctx.violation("capi:null-sweep:handle-modified", "a failed call with a null argument modified a live handle", json!({}));
    }
    for p in [list, dict, grid, date, time, out] {
        if !p.is_null() {
            haystack_value_destroy(p);
        }
    }
    if !filt.is_null() {
        haystack_filter_destroy(filt);
    }
}

/// Failing calls whose error message quotes caller-supplied text, for texts of every byte length up to `max` made of
/// 1-, 2-, 3- and 4-byte characters: each must return its sentinel and leave a retrievable message (and, for C18,
/// must not take the process down whatever the message length is).
unsafe fn error_text_sweep(ctx: &mut Ctx, max: usize) {
    let date = own(haystack_value_make_date(2020, 1, 2));
    let time = own(haystack_value_make_time(1, 2, 3));
    let _ = take_err();
    let mut calls = 0u64;
    for ch in ["q", "\u{e9}", "\u{20ac}", "\u{1f600}"] {
        for offset in 0..4usize {
            let mut n = 1usize;
            while offset + n * ch.len() <= max {
                let body = format!("{}{}", "Q".repeat(offset), ch.repeat(n));
                n += 1;
                // texts that none of the five entry points accepts: not a unit, not a zone, not Zinc, not JSON, not a filter
                for (name, text) in [("make_number_with_unit", format!("{body}~")), ("make_tz_datetime", format!("{body}~")), ("from_zinc_string", format!("{body}\"")), ("from_json_string", format!("{{\"{body}")), ("filter_parse", format!("{body} ==="))] {
                    let c = cstr(&text);
                    let failed = match name {
                        "make_number_with_unit" => haystack_value_make_number_with_unit(1.0, c.as_ptr()).map(|b| drop(b)).is_none(),
                        "make_tz_datetime" => haystack_value_make_tz_datetime(date, time, c.as_ptr()).map(|b| drop(b)).is_none(),
                        "from_zinc_string" => haystack_value_from_zinc_string(c.as_ptr()).map(|b| drop(b)).is_none(),
                        "from_json_string" => haystack_value_from_json_string(c.as_ptr()).map(|b| drop(b)).is_none(),
                        _ => match haystack_filter_parse(c.as_ptr()) {
                            Some(f) => {
                                haystack_filter_destroy(Box::into_raw(f));
                                false
                            }
                            None => true,
                        },
                    };
                    calls += 1;
                    let p = last_error_message();
                    let msg = if p.is_null() {
                        None
                    } else {
                        let bytes = CStr::from_ptr(p).to_bytes().to_vec();
                        haystack_string_destroy(p as *mut c_char);
                        Some(bytes)
                    };
                    if !failed {
                        ctx.violation(&format!("capi:error-text:{name}:invalid-text-accepted"), &format!("{name} accepted {:?}", truncate(&text, 80)), json!({"bytes": text.len()}));
                    } else {
                        match msg {
                            None => ctx.violation(&format!("capi:error-text:{name}:failure-without-error-message"), &format!("{name} failed on a {}-byte text but last_error_message() is null", text.len()), json!({"bytes": text.len()})),
                            Some(b) if b.is_empty() || std::str::from_utf8(&b).is_err() => ctx.violation(&format!("capi:error-text:{name}:message-not-text"), &format!("{name}: the error message for a {}-byte text is empty or not UTF-8", text.len()), json!({"bytes": text.len()})),
                            Some(_) => {}
                        }
                    }
                }
            }
        }
        ctx.eval("error-text", crate::prng::hash_str(ch), true);
    }
    ctx.evaluations += calls;
    ctx.note_add("error_text_calls", calls);
    haystack_value_destroy(date);
    haystack_value_destroy(time);
}

/// Every function that writes its answer through a result pointer, called with a result handle that already owns heap
/// data (a Str, a List, a Dict, a Grid) and called twice in a row on the same handle: the previous content must be
/// released, not overwritten (the leak detectors see the difference), and the answer must be the same as into a fresh one.
unsafe fn holder_reuse_sweep(ctx: &mut Ctx) {
    let mk_row = |k: &str, v: f64| -> *mut Value {
        let d = Box::into_raw(haystack_value_make_dict());
        let e = Box::into_raw(haystack_value_make_number(v));
        let ck = cstr(k);
        haystack_value_insert_dict_entry(d, ck.as_ptr(), e);
        let s = Box::into_raw(haystack_value_make_str(cstr("some heap text that is long enough to be allocated").as_ptr()).unwrap());
        let cs = cstr("dis");
        haystack_value_insert_dict_entry(d, cs.as_ptr(), s);
        haystack_value_destroy(e);
        haystack_value_destroy(s);
        d
    };
    let rows = Box::into_raw(haystack_value_make_list());
    for (k, v) in [("site", 1.0), ("site", 2.0), ("equip", 3.0)] {
        let r = mk_row(k, v);
        haystack_value_push_list_entry(rows, r);
        haystack_value_destroy(r);
    }
    let grid = own(haystack_value_make_grid_from_rows(rows));
    let dict = mk_row("site", 9.0);
    let ft = cstr("site");
    let filt = haystack_filter_parse(ft.as_ptr()).map(Box::into_raw).unwrap_or(null_mut());
    let date = own(haystack_value_make_date(2021, 3, 4));
    let time = own(haystack_value_make_time(5, 6, 7));
    let tz = cstr("Tokyo");
    let dt = own(haystack_value_make_tz_datetime(date, time, tz.as_ptr()));
    let _ = take_err();
    let mut calls = 0u64;
    let holders: [fn() -> *mut Value; 4] = [
        || unsafe { Box::into_raw(haystack_value_make_str(cstr("a string owned by the result handle before the call").as_ptr()).unwrap()) },
        || unsafe {
            let l = Box::into_raw(haystack_value_make_list());
            let e = Box::into_raw(haystack_value_make_str(cstr("list element text on the heap").as_ptr()).unwrap());
            haystack_value_push_list_entry(l, e);
            haystack_value_destroy(e);
            l
        },
        || unsafe { Box::into_raw(haystack_value_make_dict()) },
        || unsafe { Box::into_raw(haystack_value_init()) },
    ];
    for (hi, mk) in holders.iter().enumerate() {
        for f in 0..6usize {
            let out = mk();
            let fresh = Box::into_raw(haystack_value_init());
            let call = |o: *mut Value| -> ResultType {
                match f {
                    0 => haystack_value_get_grid_row_at(grid, 1, o),
                    1 => haystack_filter_first_match_in_grid(filt, grid, o),
                    2 => haystack_filter_match_all_grid(filt, grid, o),
                    3 => haystack_value_get_dict_keys(dict, o),
                    4 => haystack_value_get_datetime_date(dt, false, o),
                    _ => haystack_value_get_datetime_time(dt, true, o),
                }
            };
            let r0 = call(fresh);
            let r1 = call(out);
            let r2 = call(out); // the handle now holds the previous answer
            calls += 3;
            ctx.eval("holder-reuse", (hi * 10 + f) as u64, true);
            if r0 != ResultType::TRUE || r1 != r0 || r2 != r0 || !same(&*out, &*fresh) {
                ctx.violation("capi:holder-reuse:answer-depends-on-previous-content", &format!("out-parameter function #{f} into a result handle of kind #{hi}: {r0:?}/{r1:?}/{r2:?}, contents equal to a fresh handle's: {}", same(&*out, &*fresh)), json!({}));
            }
            let _ = take_err();
            haystack_value_destroy(out);
            haystack_value_destroy(fresh);
        }
    }
    for p in [rows, grid, dict, date, time, dt] {
        if !p.is_null() {
            haystack_value_destroy(p);
        }
    }
    if !filt.is_null() {
        haystack_filter_destroy(filt);
    }
    ctx.evaluations += calls;
}

/// Dates at the edge of what a Date can hold (chrono's range is about +-262,000 years), combined with every sign of
/// zone offset: every call must come back, with a value or with the failure sentinel and an error message; none may
/// take the process down (local time = UTC + offset can leave the representable range).
unsafe fn extreme_dates(ctx: &mut Ctx) {
    let years = [-262_143i32, -262_142, -262_141, -10_000, -1, 0, 1, 9_999, 10_000, 262_141, 262_142, 262_143];
    let zones = ["UTC", "Tokyo", "New_York", "Kiritimati", "Pago_Pago", "Kolkata", "London"];
    let mut calls = 0u64;
    for y in years {
        for (mo, d) in [(1u32, 1u32), (12, 31), (6, 15)] {
            let Some(date) = haystack_value_make_date(y, mo, d) else {
                let _ = take_err();
                continue;
            };
            let date = Box::into_raw(date);
            for (h, mi) in [(0u32, 0u32), (0, 30), (12, 0), (23, 30), (23, 59)] {
                let time = own(haystack_value_make_time(h, mi, 59));
                for z in zones {
                    let cz = cstr(z);
                    ctx.eval("extreme-dates", crate::prng::mix(&[y as u64, mo as u64, h as u64, mi as u64, crate::prng::hash_str(z)]), true);
                    // (the progress marker names the step, so that a death is attributable to one call)
                    let trace = std::env::var("HSV_TRACE").is_ok();
                    if trace {
                        eprintln!("extreme-dates: make {y}-{mo}-{d} {h}:{mi} {z}");
                    }
                    let dt = if z == "UTC" { haystack_value_make_utc_datetime(date, time) } else { haystack_value_make_tz_datetime(date, time, cz.as_ptr()) };
                    calls += 1;
                    let Some(dt) = dt else {
                        if take_err().is_none() {
                            ctx.violation("capi:extreme-dates:make_datetime:failure-without-error-message", &format!("year {y} {z}: constructor failed without an error message"), json!({}));
                        }
                        continue;
                    };
                    let dt = Box::into_raw(dt);
                    for utc in [false, true] {
                        let out = Box::into_raw(haystack_value_init());
                        for which in 0..2 {
                            if trace {
                                eprintln!("extreme-dates: getter {which} utc={utc}");
                            }
                            let r = if which == 0 { haystack_value_get_datetime_date(dt, utc, out) } else { haystack_value_get_datetime_time(dt, utc, out) };
                            calls += 1;
                            let e = take_err();
                            if (r == ResultType::ERR) != e.is_some() || r == ResultType::FALSE {
                                ctx.violation("capi:extreme-dates:getter:sentinel-and-message-disagree", &format!("year {y} {z} utc={utc}: returned {r:?}, error message {e:?}"), json!({}));
                            }
                        }
                        haystack_value_destroy(out);
                    }
                    if trace {
                        eprintln!("extreme-dates: timezone / to_zinc / to_json");
                    }
                    for which in 0..3 {
                        // (one call at a time: each failing call must leave its own message)
                        let p = match which {
                            0 => haystack_value_get_datetime_timezone(dt),
                            1 => haystack_value_to_zinc_string(dt),
                            _ => haystack_value_to_json_string(dt),
                        };
                        calls += 1;
                        if p.is_null() {
                            if take_err().is_none() {
                                ctx.violation("capi:extreme-dates:string:failure-without-error-message", &format!("year {y} {z}: a string getter/encoder failed without an error message"), json!({}));
                            }
                        } else {
                            haystack_string_destroy(p as *mut c_char);
                        }
                    }
                    haystack_value_destroy(dt);
                }
                haystack_value_destroy(time);
            }
            haystack_value_destroy(date);
        }
    }
    ctx.evaluations += calls;
    ctx.note_add("extreme_date_calls", calls);
}

pub fn run(ctx: &mut Ctx, c18: bool) {
    // in every worker (so that every sanitizer phase, whatever its number of shards, runs it)
    if ctx.begin("holder-reuse", 0) {
        unsafe { holder_reuse_sweep(ctx) };
        ctx.stratum("holder-reuse-completed");
    }
    if ctx.shard == 1 % ctx.nshards && !cfg!(miri) && ctx.begin("extreme-dates", 0) {
        unsafe { extreme_dates(ctx) };
        ctx.stratum("extreme-dates-completed");
    }
    // failing calls with long / non-ASCII quoted input (shard 0 only: deterministic)
    if ctx.shard == 0 && ctx.begin("error-text", 0) {
        // (phases run at a reduced scale - the quick sanitizer phase - sweep a shorter range)
        let max = if cfg!(miri) { 40 } else if ctx.scale < 1.0 { 300 } else { 1100 };
        unsafe { error_text_sweep(ctx, max) };
        ctx.stratum("error-text-completed");
    }
    // C18: null sweep first (its own announced case so a signal is attributable)
    if c18 && ctx.begin("null-sweep", 0) {
        unsafe { null_sweep(ctx) };
        ctx.stratum("null-sweep-completed");
    }
    // ---- several threads, each with its own handles: the error slot and every result are per thread -----------
    let ntrials = if cfg!(miri) { 0 } else { ctx.n(6, 60) };
    for i in 0..ntrials {
        if !ctx.begin("threads", i) {
            continue;
        }
        let base = ctx.case_rng("threads", i).next_u64();
        let nthreads = 2 + (base % 3) as usize;
        let per_thread_ops = if ctx.quick() { 150 } else { 400 };
        let (prop, tier, seed, shard, nshards) = (ctx.prop.clone(), ctx.tier, ctx.seed, ctx.shard, ctx.nshards);
        let barrier = std::sync::Barrier::new(nthreads);
        let results: Vec<(u64, Vec<(String, String, J)>)> = std::thread::scope(|s| {
            let hs: Vec<_> = (0..nthreads)
                .map(|t| {
                    let barrier = &barrier;
                    let prop = prop.clone();
                    s.spawn(move || {
                        let mut local = Ctx::new(&prop, tier, seed, shard, nshards);
                        let ops;
                        {
                            let mut w = World::new(&mut local, Rng::new(crate::prng::mix(&[base, t as u64])));
                            barrier.wait();
                            for k in 0..per_thread_ops {
                                unsafe { w.step() };
                                if k % 16 == 0 {
                                    std::thread::yield_now();
                                }
                            }
                            unsafe { w.teardown() };
                            ops = w.ops;
                        }
                        // the thread ends with a failure whose message nobody reads: the slot must be released with the thread
                        unsafe {
                            let _ = haystack_value_get_str_value(null());
                            let c = cstr("no such unit");
                            let _ = haystack_value_make_number_with_unit(1.0, c.as_ptr());
                        }
                        let v: Vec<(String, String, J)> = local.violations.values().map(|v| (v.sig.clone(), v.what.clone(), v.witness.clone())).collect();
                        (ops, v)
                    })
                })
                .collect();
            hs.into_iter().map(|h| h.join().expect("C API worker thread")).collect()
        });
        let mut total = 0;
        for (ops, vs) in results {
            total += ops;
            for (sig, what, wit) in vs {
                ctx.violation(&format!("{sig}:with-{nthreads}-threads"), &format!("(one of {nthreads} threads, each using only its own handles) {what}"), wit);
            }
        }
        ctx.eval("threads", crate::prng::mix(&[base, nthreads as u64]), true);
        ctx.evaluations += total;
        ctx.note_add("api_calls_on_concurrent_threads", total);
    }
    let (nseq, nops) = if cfg!(miri) { (ctx.n(3, 3), 30) } else if ctx.quick() { (ctx.n(130, 130), 60) } else { (ctx.n(1250, 1250), 200) };
    for i in 0..nseq {
        if !ctx.begin("sequence", i) {
            continue;
        }
        let rng = ctx.case_rng("sequence", i);
        let mut total_ops = 0u64;
        {
            let mut w = World::new(ctx, rng);
            for _ in 0..nops {
                unsafe { w.step() };
            }
            unsafe { w.teardown() };
            total_ops += w.ops;
            let fp = crate::prng::hash_str(&w.log.join("|"));
            let sample = if i == 0 { Some(w.log.iter().take(25).cloned().collect::<Vec<_>>()) } else { None };
            drop(w);
            ctx.eval("sequence", fp, true);
            if let Some(s) = sample {
                ctx.sample("sequence", json!(s));
            }
        }
        ctx.evaluations += total_ops;
        ctx.note_add("api_calls_modelled", total_ops);
    }
}
