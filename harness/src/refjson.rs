//! Spec-derived Hayson reference programs (DESIGN Appendix B): a writer that varies member order,
//! optional members, number/string spellings and whitespace, and a strict reader.

use crate::model::*;
use crate::prng::Rng;
use crate::refzinc::{civil_from_days, days_from_civil};
use serde_json::Value as J;

pub struct JWriter<'a> {
    pub rng: &'a mut Rng,
    pub vary: bool,
    pub out: String,
    pub used: Vec<&'static str>,
}

impl JWriter<'_> {
    fn flip(&mut self, num: u32, den: u32, name: &'static str) -> bool {
        if self.vary && self.rng.chance(num, den) {
            if !self.used.contains(&name) {
                self.used.push(name);
            }
            true
        } else {
            false
        }
    }
    fn ws(&mut self) {
        if self.vary && self.rng.chance(1, 5) {
            self.out.push_str(*self.rng.pick::<&str>(&[" ", "\n", "  ", "\t", "\r\n "]));
        }
    }
    fn string(&mut self, s: &str) {
        self.out.push('"');
        for c in s.chars() {
            let cp = c as u32;
            match c {
                '"' => self.out.push_str("\\\""),
                '\\' => self.out.push_str("\\\\"),
                '\n' => self.out.push_str("\\n"),
                '\r' => self.out.push_str("\\r"),
                '\t' => self.out.push_str("\\t"),
                '\u{8}' => self.out.push_str("\\b"),
                '\u{c}' => self.out.push_str("\\f"),
                '/' if self.flip(1, 4, "esc-solidus") => self.out.push_str("\\/"),
                _ if cp < 0x20 => self.out.push_str(&format!("\\u{:04x}", cp)),
                _ if self.flip(1, 12, "esc-uXXXX") => {
                    let mut buf = [0u16; 2];
                    for u in c.encode_utf16(&mut buf) {
                        self.out.push_str(&format!("\\u{:04X}", u));
                    }
                }
                _ => self.out.push(c),
            }
        }
        self.out.push('"');
    }
    pub fn number(&mut self, v: f64) {
        debug_assert!(v.is_finite());
        let plain = format!("{}", v);
        let integral = v.fract() == 0.0 && v.abs() < 9007199254740992.0 && !(v == 0.0 && v.is_sign_negative());
        let t = if self.vary && self.rng.chance(1, 4) && v != 0.0 {
            if !self.used.contains(&"number-exponent") {
                self.used.push("number-exponent");
            }
            let e = format!("{:e}", v);
            let (m, x) = e.split_once('e').unwrap();
            let x: i32 = x.parse().unwrap();
            format!("{}{}{}{}", m, if self.rng.coin() { 'e' } else { 'E' }, if x < 0 { "-" } else if self.rng.coin() { "+" } else { "" }, x.abs())
        } else if integral && self.flip(1, 3, "integer-as-decimal") {
            format!("{}.0", plain)
        } else if plain.len() > 40 {
            format!("{:e}", v)
        } else if v == 0.0 && v.is_sign_negative() {
            "-0.0".to_string()
        } else {
            plain
        };
        self.out.push_str(&t);
    }
    /// members in random order
    fn object(&mut self, mut members: Vec<(String, Box<dyn FnOnce(&mut JWriter)>)>) {
        if self.vary {
            let n = members.len();
            for i in (1..n).rev() {
                let j = self.rng.below(i + 1);
                members.swap(i, j);
            }
            if n > 1 && !self.used.contains(&"member-order") {
                self.used.push("member-order");
            }
        }
        self.out.push('{');
        let mut first = true;
        for (k, f) in members {
            if !first {
                self.out.push(',');
            }
            first = false;
            self.ws();
            self.string(&k);
            self.ws();
            self.out.push(':');
            self.ws();
            f(self);
        }
        self.ws();
        self.out.push('}');
    }
    fn kind_obj(&mut self, kind: &'static str, mut rest: Vec<(String, Box<dyn FnOnce(&mut JWriter)>)>) {
        rest.insert(0, ("_kind".to_string(), Box::new(move |w: &mut JWriter| w.string(kind))));
        self.object(rest);
    }
    fn dict_members(d: &MDict) -> Vec<(String, Box<dyn FnOnce(&mut JWriter)>)> {
        d.iter()
            .map(|(k, v)| {
                let v = v.clone();
                (k.clone(), Box::new(move |w: &mut JWriter| w.val(&v)) as Box<dyn FnOnce(&mut JWriter)>)
            })
            .collect()
    }
    fn plain_dict(&mut self, d: &MDict, allow_kind: bool) {
        let mut m = Self::dict_members(d);
        if allow_kind && self.flip(1, 3, "kind-dict-present") {
            m.push(("_kind".into(), Box::new(|w: &mut JWriter| w.string("dict"))));
        }
        self.object(m);
    }
    fn frac(nanos: u32, rng: &mut Rng, vary: bool) -> String {
        if nanos == 0 {
            return String::new();
        }
        let mut s = format!("{:09}", nanos);
        while s.ends_with('0') {
            s.pop();
        }
        if vary && rng.chance(1, 4) {
            while s.len() < 9 && rng.coin() {
                s.push('0');
            }
        }
        format!(".{s}")
    }
    pub fn val(&mut self, v: &MVal) {
        match v {
            MVal::Null => self.out.push_str("null"),
            MVal::Bool(b) => self.out.push_str(if *b { "true" } else { "false" }),
            MVal::Str(s) => self.string(s),
            MVal::Marker => self.kind_obj("marker", vec![]),
            MVal::Na => self.kind_obj("na", vec![]),
            MVal::Remove => self.kind_obj("remove", vec![]),
            MVal::Num(f, u) => {
                let x = f.0;
                if !x.is_finite() {
                    let t = if x.is_nan() { "NaN" } else if x > 0.0 { "INF" } else { "-INF" };
                    let mut mm: Vec<(String, Box<dyn FnOnce(&mut JWriter)>)> = vec![("val".into(), Box::new(move |w: &mut JWriter| w.string(t)))];
                    // only reachable from the relaxed (not well-formed) generator: a non-finite number that carries a unit
                    if let Some(u) = u {
                        let sym = crate::bridge::unit_by_name(u).expect("unit").symbol().to_string();
                        mm.push(("unit".into(), Box::new(move |w: &mut JWriter| w.string(&sym))));
                    }
                    self.kind_obj("number", mm);
                } else if let Some(u) = u {
                    let sym = crate::bridge::unit_by_name(u).expect("unit").symbol().to_string();
                    self.kind_obj("number", vec![("val".into(), Box::new(move |w: &mut JWriter| w.number(x))), ("unit".into(), Box::new(move |w: &mut JWriter| w.string(&sym)))]);
                } else if self.flip(1, 6, "unitless-number-as-object") {
                    self.kind_obj("number", vec![("val".into(), Box::new(move |w: &mut JWriter| w.number(x)))]);
                } else {
                    self.number(x);
                }
            }
            MVal::Uri(s) => {
                let s = s.clone();
                self.kind_obj("uri", vec![("val".into(), Box::new(move |w: &mut JWriter| w.string(&s)))])
            }
            MVal::Symbol(s) => {
                let s = s.clone();
                self.kind_obj("symbol", vec![("val".into(), Box::new(move |w: &mut JWriter| w.string(&s)))])
            }
            MVal::Ref(id, dis) => {
                let id = id.clone();
                let mut m: Vec<(String, Box<dyn FnOnce(&mut JWriter)>)> = vec![("val".into(), Box::new(move |w: &mut JWriter| w.string(&id)))];
                if let Some(d) = dis.clone() {
                    m.push(("dis".into(), Box::new(move |w: &mut JWriter| w.string(&d))));
                }
                self.kind_obj("ref", m);
            }
            MVal::Date(y, mo, d) => {
                let t = format!("{:04}-{:02}-{:02}", y, mo, d);
                self.kind_obj("date", vec![("val".into(), Box::new(move |w: &mut JWriter| w.string(&t)))]);
            }
            MVal::Time(h, mi, s, n) => {
                // leap second: second 59 + nanos >= 1e9, written as second 60
                let (leap, nanos) = if *n >= 1_000_000_000 { (1, *n - 1_000_000_000) } else { (0, *n) };
                let t = format!("{:02}:{:02}:{:02}{}", h, mi, s + leap, Self::frac(nanos, self.rng, self.vary));
                self.kind_obj("time", vec![("val".into(), Box::new(move |w: &mut JWriter| w.string(&t)))]);
            }
            MVal::DateTime(d) => {
                let local = d.secs + d.offset as i64;
                let (y, mo, dd) = civil_from_days(local.div_euclid(86400));
                let sod = local.rem_euclid(86400);
                let (leap, nanos) = if d.nanos >= 1_000_000_000 { (1, d.nanos - 1_000_000_000) } else { (0, d.nanos) };
                let mut t = format!("{:04}-{:02}-{:02}T{:02}:{:02}:{:02}{}", y, mo, dd, sod / 3600, (sod / 60) % 60, sod % 60 + leap, Self::frac(nanos, self.rng, self.vary));
                if d.offset == 0 && !self.flip(1, 3, "zero-offset-numeric") {
                    t.push('Z');
                } else {
                    let a = d.offset.abs();
                    t.push_str(&format!("{}{:02}:{:02}", if d.offset < 0 { '-' } else { '+' }, a / 3600, (a / 60) % 60));
                }
                let mut m: Vec<(String, Box<dyn FnOnce(&mut JWriter)>)> = vec![("val".into(), Box::new(move |w: &mut JWriter| w.string(&t)))];
                if d.tz != "UTC" || self.flip(1, 2, "tz-present-for-utc") {
                    let tz = d.tz.clone();
                    m.push(("tz".into(), Box::new(move |w: &mut JWriter| w.string(&tz))));
                }
                self.kind_obj("dateTime", m);
            }
            MVal::Coord(a, b) => {
                let (a, b) = (a.0, b.0);
                self.kind_obj("coord", vec![("lat".into(), Box::new(move |w: &mut JWriter| w.number(a))), ("lng".into(), Box::new(move |w: &mut JWriter| w.number(b)))]);
            }
            MVal::XStr(t, s) => {
                let (t, s) = (t.clone(), s.clone());
                self.kind_obj("xstr", vec![("type".into(), Box::new(move |w: &mut JWriter| w.string(&t))), ("val".into(), Box::new(move |w: &mut JWriter| w.string(&s)))]);
            }
            MVal::List(l) => {
                self.out.push('[');
                for (i, e) in l.iter().enumerate() {
                    if i > 0 {
                        self.out.push(',');
                    }
                    self.ws();
                    self.val(e);
                }
                self.ws();
                self.out.push(']');
            }
            MVal::Dict(d) => self.plain_dict(d, true),
            MVal::Grid(g) => {
                let g = (**g).clone();
                let mut m: Vec<(String, Box<dyn FnOnce(&mut JWriter)>)> = Vec::new();
                let meta_mode = if g.meta.is_empty() { self.rng.below(3) } else { 1 + self.rng.below(2) };
                if !self.vary || meta_mode != 0 {
                    let mut meta = g.meta.clone();
                    let with_ver = self.vary && meta_mode == 2;
                    if with_ver && !self.used.contains(&"meta-with-ver") {
                        self.used.push("meta-with-ver");
                    }
                    m.push(("meta".into(), Box::new(move |w: &mut JWriter| {
                        let mut mm = JWriter::dict_members(&meta);
                        if with_ver {
                            mm.push(("ver".into(), Box::new(|w: &mut JWriter| w.string("3.0"))));
                        }
                        meta.clear();
                        w.object(mm);
                    })));
                } else if !self.used.contains(&"meta-absent") {
                    self.used.push("meta-absent");
                }
                let cols = g.cols.clone();
                m.push(("cols".into(), Box::new(move |w: &mut JWriter| {
                    w.out.push('[');
                    for (i, c) in cols.iter().enumerate() {
                        if i > 0 {
                            w.out.push(',');
                        }
                        let name = c.name.clone();
                        let mut cm: Vec<(String, Box<dyn FnOnce(&mut JWriter)>)> = vec![("name".into(), Box::new(move |w: &mut JWriter| w.string(&name)))];
                        if !c.meta.is_empty() || w.flip(1, 3, "empty-col-meta-present") {
                            let meta = c.meta.clone();
                            cm.push(("meta".into(), Box::new(move |w: &mut JWriter| w.plain_dict(&meta, false))));
                        }
                        w.object(cm);
                    }
                    w.out.push(']');
                })));
                let rows = g.rows.clone();
                m.push(("rows".into(), Box::new(move |w: &mut JWriter| {
                    w.out.push('[');
                    for (i, r) in rows.iter().enumerate() {
                        if i > 0 {
                            w.out.push(',');
                        }
                        w.plain_dict(r, false);
                    }
                    w.out.push(']');
                })));
                self.kind_obj("grid", m);
            }
        }
    }
}

pub fn write_hayson(rng: &mut Rng, v: &MVal, vary: bool) -> (String, Vec<&'static str>) {
    let mut w = JWriter { rng, vary, out: String::new(), used: Vec::new() };
    w.ws();
    w.val(v);
    w.ws();
    (w.out, w.used)
}

// ---------------------------------------------------------------------------------------------
// strict reader
// ---------------------------------------------------------------------------------------------

type R<T> = Result<T, String>;

fn only_fields(o: &serde_json::Map<String, J>, allowed: &[&str]) -> R<()> {
    for k in o.keys() {
        if k != "_kind" && !allowed.contains(&k.as_str()) {
            return Err(format!("unexpected member {k:?}"));
        }
    }
    Ok(())
}

fn str_field(o: &serde_json::Map<String, J>, k: &str) -> R<String> {
    o.get(k).and_then(|v| v.as_str()).map(|s| s.to_string()).ok_or_else(|| format!("missing or non-string {k:?}"))
}

fn num_field(o: &serde_json::Map<String, J>, k: &str) -> R<f64> {
    o.get(k).and_then(|v| v.as_f64()).ok_or_else(|| format!("missing or non-number {k:?}"))
}

fn dict_of(o: &serde_json::Map<String, J>) -> R<MDict> {
    let mut d = MDict::new();
    for (k, v) in o {
        if k == "_kind" {
            continue;
        }
        d.insert(k.clone(), read_hayson(v)?);
    }
    Ok(d)
}

fn parse_time(s: &str) -> R<(u32, u32, u32, u32)> {
    let b = s.as_bytes();
    if b.len() < 8 || b[2] != b':' || b[5] != b':' {
        return Err(format!("bad time {s:?}"));
    }
    let n = |x: &str| x.parse::<u32>().map_err(|_| format!("bad time {s:?}"));
    let (h, m, sec) = (n(&s[0..2])?, n(&s[3..5])?, n(&s[6..8])?);
    let nanos = if b.len() > 8 {
        if b[8] != b'.' || b.len() == 9 || b.len() > 18 || !s[9..].bytes().all(|c| c.is_ascii_digit()) {
            return Err(format!("bad time fraction {s:?}"));
        }
        let mut f = s[9..].to_string();
        while f.len() < 9 {
            f.push('0');
        }
        f.parse::<u32>().unwrap()
    } else {
        0
    };
    if h > 23 || m > 59 || sec > 60 {
        return Err(format!("bad time {s:?}"));
    }
    if sec == 60 {
        return Ok((h, m, 59, nanos + 1_000_000_000));
    }
    Ok((h, m, sec, nanos))
}

fn parse_date(s: &str) -> R<(i32, u32, u32)> {
    let b = s.as_bytes();
    if b.len() != 10 || b[4] != b'-' || b[7] != b'-' {
        return Err(format!("bad date {s:?}"));
    }
    let y: i32 = s[0..4].parse().map_err(|_| format!("bad date {s:?}"))?;
    let m: u32 = s[5..7].parse().map_err(|_| format!("bad date {s:?}"))?;
    let d: u32 = s[8..10].parse().map_err(|_| format!("bad date {s:?}"))?;
    if !(1..=12).contains(&m) || d < 1 || d > crate::gen::days_in_month(y, m) {
        return Err(format!("bad date {s:?}"));
    }
    Ok((y, m, d))
}

pub fn read_hayson(j: &J) -> R<MVal> {
    Ok(match j {
        J::Null => MVal::Null,
        J::Bool(b) => MVal::Bool(*b),
        J::Number(n) => MVal::Num(F(n.as_f64().ok_or("number not representable")?), None),
        J::String(s) => MVal::Str(s.clone()),
        J::Array(a) => MVal::List(a.iter().map(read_hayson).collect::<R<Vec<_>>>()?),
        J::Object(o) => {
            let kind = match o.get("_kind") {
                None => return Ok(MVal::Dict(dict_of(o)?)),
                Some(J::String(k)) => k.as_str(),
                Some(_) => return Err("_kind is not a string".into()),
            };
            match kind {
                "dict" => MVal::Dict(dict_of(o)?),
                "marker" => {
                    only_fields(o, &[])?;
                    MVal::Marker
                }
                "na" => {
                    only_fields(o, &[])?;
                    MVal::Na
                }
                "remove" => {
                    only_fields(o, &[])?;
                    MVal::Remove
                }
                "number" => {
                    only_fields(o, &["val", "unit"])?;
                    let unit = match o.get("unit") {
                        None => None,
                        Some(J::String(sym)) => {
                            let u = crate::bridge::all_units().iter().find(|u| u.ids.iter().any(|i| i == sym)).ok_or(format!("unknown unit {sym:?}"))?;
                            Some(u.name().to_string())
                        }
                        Some(_) => return Err("unit is not a string".into()),
                    };
                    let v = match o.get("val") {
                        Some(J::String(s)) => match s.as_str() {
                            "NaN" => f64::NAN,
                            "INF" => f64::INFINITY,
                            "-INF" => f64::NEG_INFINITY,
                            _ => return Err(format!("bad number val {s:?}")),
                        },
                        Some(J::Number(n)) => n.as_f64().ok_or("number not representable")?,
                        _ => return Err("number without val".into()),
                    };
                    MVal::Num(F(v), unit)
                }
                "ref" => {
                    only_fields(o, &["val", "dis"])?;
                    MVal::Ref(str_field(o, "val")?, if o.contains_key("dis") { Some(str_field(o, "dis")?) } else { None })
                }
                "symbol" => {
                    only_fields(o, &["val"])?;
                    MVal::Symbol(str_field(o, "val")?)
                }
                "uri" => {
                    only_fields(o, &["val"])?;
                    MVal::Uri(str_field(o, "val")?)
                }
                "xstr" => {
                    only_fields(o, &["type", "val"])?;
                    MVal::XStr(str_field(o, "type")?, str_field(o, "val")?)
                }
                "coord" => {
                    only_fields(o, &["lat", "lng"])?;
                    MVal::Coord(F(num_field(o, "lat")?), F(num_field(o, "lng")?))
                }
                "date" => {
                    only_fields(o, &["val"])?;
                    let (y, m, d) = parse_date(&str_field(o, "val")?)?;
                    MVal::Date(y, m, d)
                }
                "time" => {
                    only_fields(o, &["val"])?;
                    let (h, m, s, n) = parse_time(&str_field(o, "val")?)?;
                    MVal::Time(h, m, s, n)
                }
                "dateTime" => {
                    only_fields(o, &["val", "tz"])?;
                    let s = str_field(o, "val")?;
                    if s.len() < 20 || s.as_bytes()[10] != b'T' {
                        return Err(format!("bad dateTime {s:?}"));
                    }
                    let (y, mo, d) = parse_date(&s[0..10])?;
                    let rest = &s[11..];
                    let zpos = rest.find(|c| c == 'Z' || c == '+' || c == '-').ok_or(format!("dateTime without offset {s:?}"))?;
                    let (h, mi, sec, n) = parse_time(&rest[..zpos])?;
                    let off = match &rest[zpos..] {
                        "Z" => 0,
                        o if o.len() == 6 && o.as_bytes()[3] == b':' => {
                            let sign = if o.starts_with('-') { -1 } else { 1 };
                            let hh: i32 = o[1..3].parse().map_err(|_| "bad offset")?;
                            let mm: i32 = o[4..6].parse().map_err(|_| "bad offset")?;
                            sign * (hh * 3600 + mm * 60)
                        }
                        o => return Err(format!("bad offset {o:?}")),
                    };
                    let local = days_from_civil(y as i64, mo, d) * 86400 + (h * 3600 + mi * 60 + sec) as i64;
                    let tz = if o.contains_key("tz") { str_field(o, "tz")? } else { "UTC".to_string() };
                    if !o.contains_key("tz") && off != 0 {
                        return Err("dateTime with an offset but no tz".into());
                    }
                    MVal::DateTime(MDateTime { secs: local - off as i64, nanos: n, offset: off, tz })
                }
                "grid" => {
                    only_fields(o, &["meta", "cols", "rows"])?;
                    let mut meta = match o.get("meta") {
                        None => MDict::new(),
                        Some(J::Object(m)) => dict_of(m)?,
                        Some(_) => return Err("grid meta is not an object".into()),
                    };
                    if let Some(v) = meta.remove("ver") {
                        if v != MVal::Str("3.0".into()) {
                            return Err(format!("grid version {v:?}"));
                        }
                    }
                    let cols = match o.get("cols") {
                        Some(J::Array(a)) => a
                            .iter()
                            .map(|c| match c {
                                J::Object(co) => {
                                    for k in co.keys() {
                                        if k != "name" && k != "meta" {
                                            return Err(format!("unexpected column member {k:?}"));
                                        }
                                    }
                                    let meta = match co.get("meta") {
                                        None => MDict::new(),
                                        Some(J::Object(m)) => dict_of(m)?,
                                        Some(_) => return Err("column meta is not an object".into()),
                                    };
                                    Ok(MCol { name: str_field(co, "name")?, meta })
                                }
                                _ => Err("column is not an object".to_string()),
                            })
                            .collect::<R<Vec<_>>>()?,
                        _ => return Err("grid without cols".into()),
                    };
                    let rows = match o.get("rows") {
                        Some(J::Array(a)) => a
                            .iter()
                            .map(|r| match r {
                                J::Object(ro) => dict_of(ro),
                                _ => Err("row is not an object".to_string()),
                            })
                            .collect::<R<Vec<_>>>()?,
                        _ => return Err("grid without rows".into()),
                    };
                    MVal::Grid(Box::new(MGrid { meta, cols, rows }))
                }
                other => return Err(format!("unknown _kind {other:?}")),
            }
        }
    })
}
