//! C03 — decoders are total: any input gives a value or an error; never a panic, an abort by
//! stack exhaustion, or a hang (logical-step fuel through hook H1).

use crate::bridge::to_value_with;
use crate::ctx::{truncate, Ctx};
use crate::gen::gen_value;
use crate::model::MVal;
use crate::prng::Rng;
use crate::readers::{pick_chunking, Chunking, HostileReader};
use crate::refzinc::write_zinc;
use crate::textgen::*;
use crate::util::{panic_sig, site_name, with_fuel};
use libhaystack::encoding::zinc::decode::parser::Parser;
use libhaystack::encoding::zinc::decode::{from_str, parse_grid_iterator};
use libhaystack::val::Value;
use serde_json::json;

pub fn fuel_for(len: usize) -> u64 {
    16 * len as u64 + 512
}

#[derive(Clone, Copy, PartialEq, Eq, Debug)]
pub enum Entry {
    FromStr,
    Reader,
    LazyRows,
    JsonStr,
    JsonSlice,
}

impl Entry {
    fn name(self) -> &'static str {
        match self {
            Entry::FromStr => "zinc::from_str",
            Entry::Reader => "zinc::Parser::make(reader).parse_value",
            Entry::LazyRows => "zinc::parse_grid_iterator(reader) drained",
            Entry::JsonStr => "serde_json::from_str::<Value>",
            Entry::JsonSlice => "serde_json::from_slice::<Value>",
        }
    }
}

/// Execute one decoder entry point on `data`. Returns a short outcome class.
fn exec(entry: Entry, data: &[u8], chunk: Chunking, interrupt: bool, fail_at: Option<usize>) -> &'static str {
    match entry {
        Entry::FromStr => match std::str::from_utf8(data) {
            Ok(s) => match from_str(s) {
                Ok(_) => "ok",
                Err(_) => "err",
            },
            Err(_) => "not-utf8",
        },
        Entry::Reader => {
            let mut r = HostileReader::new(data, chunk, interrupt, fail_at);
            match Parser::make(&mut r) {
                Ok(mut p) => match p.parse_value() {
                    Ok(_) => "ok",
                    Err(_) => "err",
                },
                Err(_) => "err",
            }
        }
        Entry::LazyRows => {
            let mut r = HostileReader::new(data, chunk, interrupt, fail_at);
            match Parser::make(&mut r) {
                Ok(mut p) => match parse_grid_iterator(&mut p) {
                    Ok(it) => {
                        let mut rows = 0usize;
                        let mut errs = 0usize;
                        for row in it {
                            match row {
                                Ok(_) => rows += 1,
                                Err(_) => {
                                    // an iterator may keep reporting errors; a caller stops at the first one
                                    errs += 1;
                                    break;
                                }
                            }
                            if rows > data.len() + 8 {
                                // more rows than bytes: the iterator is not consuming input
                                panic!("row iterator yielded more rows than the input has bytes");
                            }
                        }
                        if errs > 0 {
                            "err"
                        } else {
                            "ok"
                        }
                    }
                    Err(_) => "err",
                },
                Err(_) => "err",
            }
        }
        Entry::JsonStr => match std::str::from_utf8(data) {
            Ok(s) => match serde_json::from_str::<Value>(s) {
                Ok(_) => "ok",
                Err(_) => "err",
            },
            Err(_) => "not-utf8",
        },
        Entry::JsonSlice => match serde_json::from_slice::<Value>(data) {
            Ok(_) => "ok",
            Err(_) => "err",
        },
    }
}

/// Run one entry point under the panic / fuel monitor.
pub fn monitor(ctx: &mut Ctx, entry: Entry, data: &[u8], class: &str, rng: &mut Rng) {
    let chunk = pick_chunking(rng);
    let interrupt = rng.chance(1, 3);
    let fail_at = if rng.chance(1, 6) { Some(rng.below(data.len() + 1)) } else { None };
    let (chunk, interrupt, fail_at) = match entry {
        Entry::Reader | Entry::LazyRows => (chunk, interrupt, fail_at),
        _ => (Chunking::Whole, false, None),
    };
    let fuel = fuel_for(data.len());
    let run = with_fuel(fuel, || exec(entry, data, chunk, interrupt, fail_at));
    let total: u64 = run.ticks.iter().sum();
    if !data.is_empty() {
        ctx.note_max("max_ticks_per_byte", total as f64 / data.len() as f64);
    }
    match run.result {
        Ok(outcome) => {
            ctx.stratum(&format!("outcome:{}:{}", entry_short(entry), outcome));
        }
        Err(p) if p.fuel_site.is_some() => {
            // confirm with 1000x the fuel before calling it non-termination
            let again = with_fuel(fuel.saturating_mul(1000), || exec(entry, data, chunk, interrupt, fail_at));
            match again.result {
                Err(p2) if p2.fuel_site.is_some() => {
                    let site = site_name(p2.fuel_site.unwrap());
                    ctx.violation(
                        &format!("hang:{}:{}", entry.name(), site),
                        &format!("{} did not finish within {} lexer steps on a {}-byte input ({class}); last ticking site {site}", entry.name(), fuel.saturating_mul(1000), data.len()),
                        json!({"text": truncate(&String::from_utf8_lossy(data), 1500), "len": data.len(), "class": class,
                               "reader": format!("{chunk:?} interrupt={interrupt} fail_at={fail_at:?}")}),
                    );
                }
                Err(p2) => report_panic(ctx, entry, data, class, &p2),
                Ok(_) => {
                    ctx.note_add("slow_but_terminating_cases", 1);
                    let t: u64 = again.ticks.iter().sum();
                    ctx.note_max("max_ticks_per_byte", t as f64 / data.len().max(1) as f64);
                }
            }
        }
        Err(p) => report_panic(ctx, entry, data, class, &p),
    }
}

fn entry_short(e: Entry) -> &'static str {
    match e {
        Entry::FromStr => "from_str",
        Entry::Reader => "reader",
        Entry::LazyRows => "lazy",
        Entry::JsonStr => "json_str",
        Entry::JsonSlice => "json_slice",
    }
}

fn report_panic(ctx: &mut Ctx, entry: Entry, data: &[u8], class: &str, p: &crate::util::Panic) {
    ctx.violation(
        &format!("decoder-panic:{}:{}", entry.name(), panic_sig(p)),
        &format!("{} panicked: {} at {}:{} ({class})", entry.name(), p.msg, p.file, p.line),
        json!({"text": truncate(&String::from_utf8_lossy(data), 1500), "len": data.len(), "class": class}),
    );
}

fn all_zinc(ctx: &mut Ctx, data: &[u8], class: &str, rng: &mut Rng) {
    monitor(ctx, Entry::FromStr, data, class, rng);
    monitor(ctx, Entry::Reader, data, class, rng);
    monitor(ctx, Entry::LazyRows, data, class, rng);
}

fn all_json(ctx: &mut Ctx, data: &[u8], class: &str, rng: &mut Rng) {
    monitor(ctx, Entry::JsonStr, data, class, rng);
    monitor(ctx, Entry::JsonSlice, data, class, rng);
}

pub fn corpus_slices() -> Vec<Vec<u8>> {
    let mut out = Vec::new();
    for path in ["/repo/benches/zinc/points.zinc", "/repo/tests/defs/defs.zinc"] {
        if let Ok(text) = std::fs::read_to_string(path) {
            let lines: Vec<&str> = text.split_inclusive('\n').collect();
            if lines.len() < 4 {
                continue;
            }
            let header: String = lines[..2].concat();
            let body = &lines[2..];
            for k in 0..6 {
                let start = (k * body.len() / 6).min(body.len() - 1);
                let rows: String = body[start..(start + 2).min(body.len())].concat();
                out.push(format!("{header}{rows}").into_bytes());
            }
        }
    }
    out
}

fn grammar_doc(rng: &mut Rng, depth: usize) -> (MVal, String) {
    // favour grids: most of the decoder's code is there
    let m = if rng.chance(1, 2) {
        let mut b = 40i64;
        MVal::Grid(Box::new(crate::gen::gen_grid(rng, depth, &mut b)))
    } else {
        gen_value(rng, depth)
    };
    let (t, _) = write_zinc(rng, &m, true);
    (m, t)
}

pub fn run(ctx: &mut Ctx) {
    // --- nesting ladders: may abort the process, so each is its own announced case -------------
    crate::util::on_thread_stack(ctx, |ctx: &mut Ctx| {
    let ladders: [(&str, &str, &str, &str); 6] = [
        ("ladder-list", "[", "1", "]"),
        ("ladder-dict", "{a:", "1", "}"),
        ("ladder-grid", "<<\nver:\"3.0\"\na\n", "1\n", ">>\n"),
        ("ladder-list-in-dict", "{a:[", "1", "]}"),
        ("ladder-gridmeta", "<<\nver:\"3.0\" m:", "1", "\na\n>>"),
        ("ladder-xstr-paren", "X(", "\"a\"", ")"),
    ];
    for (stream, open, core, close) in ladders {
        if ctx.shard != 0 {
            break; // the ladders are deterministic: one shard runs them
        }
        let mut idx = 0u64;
        for depth in LADDER_DEPTHS {
            for closed in [true, false] {
                let i = idx;
                idx += 1;
                if !ctx.begin(stream, i) {
                    continue;
                }
                let text = ladder(open, core, close, depth, closed);
                let mut rng = ctx.case_rng(stream, i);
                ctx.eval(&format!("{stream}:depth{depth}"), crate::prng::mix(&[crate::prng::hash_str(stream), depth as u64, closed as u64]), true);
                ctx.note_max("max_ladder_depth", depth as f64);
                monitor(ctx, Entry::FromStr, text.as_bytes(), stream, &mut rng);
                monitor(ctx, Entry::Reader, text.as_bytes(), stream, &mut rng);
                if stream == "ladder-grid" || stream == "ladder-gridmeta" {
                    monitor(ctx, Entry::LazyRows, &text.as_bytes()[3.min(text.len())..], stream, &mut rng);
                }
            }
        }
    }
    // --- long runs of one byte between tokens (no nesting at all): a per-character recursion shows up here -----
    if ctx.shard == 0 {
        let bytes: Vec<u8> = vec![b' ', b'\t', b'\n', b'\r', b',', b'1', b'_', b'a', b'Z', b'-', b'.', b':', b'"', b'`', b'@', b'^', b'\\', b'/', 0x0c, 0x00, 0xc3];
        let lens: Vec<usize> = if ctx.quick() { vec![300, 5_000, 100_000] } else { vec![100, 450, 1_000, 5_000, 20_000, 100_000, 1_000_000] };
        let mut idx = 0u64;
        for b in &bytes {
            for len in &lens {
                let i = idx;
                idx += 1;
                if !ctx.begin("ladder-runs", i) {
                    continue;
                }
                let run: String = String::from_utf8_lossy(&vec![*b; *len]).to_string();
                let mut rng = ctx.case_rng("ladder-runs", i);
                ctx.eval(&format!("ladder-runs:len{len}"), crate::prng::mix(&[*b as u64, *len as u64]), true);
                for doc in [format!("{run}1"), format!("[1,{run}2]"), format!("{{a:{run}1 b}}"), format!("ver:\"3.0\"\na,b\n1,{run}2\n"), format!("ver:\"3.0\"{run}m\na\n1\n"), format!("\"{run}\"")] {
                    monitor(ctx, Entry::FromStr, doc.as_bytes(), "ladder-runs", &mut rng);
                    if doc.starts_with("ver:") {
                        monitor(ctx, Entry::LazyRows, doc.as_bytes(), "ladder-runs", &mut rng);
                    }
                }
            }
        }
    }
    // --- flat documents: very many siblings, no nesting ------------------------------------------------------
    if ctx.shard == 0 {
        let lens: Vec<usize> = if ctx.quick() { vec![1_000, 100_000] } else { vec![100, 1_000, 10_000, 100_000, 1_000_000] };
        for (i, len) in lens.iter().enumerate() {
            if !ctx.begin("ladder-flat", i as u64) {
                continue;
            }
            let mut rng = ctx.case_rng("ladder-flat", i as u64);
            ctx.eval(&format!("ladder-flat:len{len}"), 0xF1A7_0000 + *len as u64, true);
            let docs = [
                format!("[{}1]", "1,".repeat(*len)),
                format!("{{{}z}}", "a:1 ".repeat(*len)),
                format!("{{{}z}}", "a,".repeat(*len)),
                format!("ver:\"3.0\"\na\n{}", "1\n".repeat(*len)),
                format!("ver:\"3.0\" {}\na\n1\n", "m:1 ".repeat(*len)),
                format!("ver:\"3.0\"\n{}z\n", "a,".repeat(*len / 10)),
                format!("ver:\"3.0\"\na\n{}\n", ",".repeat(*len)),
            ];
            for d in &docs {
                monitor(ctx, Entry::FromStr, d.as_bytes(), "ladder-flat", &mut rng);
                if d.starts_with("ver:") {
                    monitor(ctx, Entry::LazyRows, d.as_bytes(), "ladder-flat", &mut rng);
                }
            }
            let j = format!("[{}1]", "1,".repeat(*len));
            monitor(ctx, Entry::JsonStr, j.as_bytes(), "ladder-flat", &mut rng);
        }
    }
    let json_ladders: [(&str, &str, &str, &str); 3] = [
        ("ladder-json-list", "[", "1", "]"),
        ("ladder-json-dict", "{\"a\":", "1", "}"),
        ("ladder-json-grid", "{\"_kind\":\"grid\",\"cols\":[{\"name\":\"a\"}],\"rows\":[{\"a\":", "1", "}]}"),
    ];
    for (stream, open, core, close) in json_ladders {
        if ctx.shard != 0 {
            break;
        }
        let mut idx = 0u64;
        for depth in LADDER_DEPTHS {
            for closed in [true, false] {
                let i = idx;
                idx += 1;
                if !ctx.begin(stream, i) {
                    continue;
                }
                let text = ladder(open, core, close, depth, closed);
                let mut rng = ctx.case_rng(stream, i);
                ctx.eval(&format!("{stream}:depth{depth}"), crate::prng::mix(&[crate::prng::hash_str(stream), depth as u64, closed as u64]), true);
                all_json(ctx, text.as_bytes(), stream, &mut rng);
            }
        }
    }

    });
    // --- every \\uXXXX escape (all 65,536 code units, both hex cases) in every literal that takes escapes ----
    {
        let per = 65536u64 / ctx.nshards.max(1) + 1;
        let lo = ctx.shard * per;
        let hi = ((ctx.shard + 1) * per).min(65536);
        if lo < hi && ctx.begin("unicode-escapes", ctx.shard) {
            let mut rng = ctx.case_rng("unicode-escapes", ctx.shard);
            for cu in lo..hi {
                let esc = if cu % 2 == 0 { format!("\\u{:04x}", cu) } else { format!("\\u{:04X}", cu) };
                let docs = [format!("\"a{esc}b\""), format!("`a{esc}`"), format!("@r \"{esc}\""), format!("X(\"{esc}{esc}\")"), format!("ver:\"3.0\"\na\n\"{esc}\"\n")];
                ctx.eval("unicode-escape", 0xE5C0_0000 + cu, true);
                for d in &docs {
                    monitor(ctx, Entry::FromStr, d.as_bytes(), "unicode-escape", &mut rng);
                }
                let j = format!("{{\"_kind\":\"uri\",\"val\":\"{esc}\"}}");
                monitor(ctx, Entry::JsonStr, j.as_bytes(), "unicode-escape", &mut rng);
            }
        }
    }

    // --- texts the decoders quote in their error messages: every byte length of 1-, 2-, 3- and 4-byte characters ----
    //     (an error path that cuts or indexes the offending text at a fixed byte offset panics on a char boundary)
    if ctx.shard == ctx.nshards.saturating_sub(1) && ctx.begin("error-text", 0) {
        let mut rng = ctx.case_rng("error-text", 0);
        let max = if ctx.quick() { 140 } else { 700 };
        for ch in ["q", "\u{e9}", "\u{20ac}", "\u{1f600}"] {
            for offset in 0..4usize {
                let mut n = 1usize;
                while offset + n * ch.len() <= max {
                    let body = format!("{}{}", "Q".repeat(offset), ch.repeat(n));
                    n += 1;
                    ctx.eval("error-text", crate::prng::hash_str(&body), true);
                    let zinc = [
                        format!("1{body}"),
                        format!("[1{body},2]"),
                        format!("2021-01-01T00:00:00+01:00 {body}"),
                        format!("2021-01-01T00:00:00Z {body}"),
                        format!("\"\\q{body}\""),
                        format!("\"\\u{body}\""),
                        format!("{body}(\"x\")"),
                        format!("@{body} x"),
                        format!("^{body}"),
                        format!("{{{body}:1}}"),
                        format!("ver:\"{body}\"\na\n1\n"),
                        format!("ver:\"3.0\" {body}\na\n1\n"),
                        format!("ver:\"3.0\"\n{body}\n1\n"),
                        format!("C({body},1)"),
                        format!("2021-{body}"),
                        format!("12:{body}"),
                    ];
                    for d in &zinc {
                        monitor(ctx, Entry::FromStr, d.as_bytes(), "error-text", &mut rng);
                    }
                    let hayson = [
                        format!("{{\"_kind\":\"{body}\"}}"),
                        format!("{{\"_kind\":\"number\",\"val\":1,\"unit\":\"{body}\"}}"),
                        format!("{{\"_kind\":\"number\",\"val\":\"{body}\"}}"),
                        format!("{{\"_kind\":\"dateTime\",\"val\":\"2021-01-01T00:00:00Z\",\"tz\":\"{body}\"}}"),
                        format!("{{\"_kind\":\"dateTime\",\"val\":\"{body}\"}}"),
                        format!("{{\"_kind\":\"date\",\"val\":\"{body}\"}}"),
                        format!("{{\"_kind\":\"time\",\"val\":\"{body}\"}}"),
                        format!("{{\"_kind\":\"coord\",\"lat\":\"{body}\",\"lng\":1}}"),
                        format!("{{\"_kind\":\"grid\",\"cols\":[{{\"name\":1}}],\"rows\":[],\"{body}\":1}}"),
                        format!("{{\"_kind\":\"xstr\",\"type\":1,\"val\":\"{body}\"}}"),
                    ];
                    for d in &hayson {
                        monitor(ctx, Entry::JsonStr, d.as_bytes(), "error-text", &mut rng);
                    }
                }
            }
        }
    }

    // --- every written UTC offset (hours 0..30, minutes at and around 59/60/99), with and without a zone name, and
    //     numbers whose integer / fraction / exponent digits run to any length ------------------------------------------
    if ctx.shard == ctx.nshards.saturating_sub(1).min(1) && ctx.begin("offset-sweep", 0) {
        let mut rng = ctx.case_rng("offset-sweep", 0);
        for hh in 0..=30u32 {
            for mm in [0u32, 1, 15, 30, 45, 59, 60, 61, 99] {
                for sign in ['+', '-'] {
                    ctx.eval("offset-sweep", crate::prng::mix(&[hh as u64, mm as u64, sign as u64]), true);
                    for doc in [
                        format!("2021-08-06T17:05:00{sign}{hh:02}:{mm:02} London"),
                        format!("2021-08-06T17:05:00{sign}{hh:02}:{mm:02}"),
                        format!("[2021-08-06T17:05:00.5{sign}{hh:02}:{mm:02} New_York,1]"),
                        format!("2021-08-06T17:05:00{sign}{hh:02}:{mm:02} GMT{sign}{hh}"),
                        format!("2021-08-06T17:05:00{sign}{hh:02}{mm:02} UTC"),
                    ] {
                        monitor(ctx, Entry::FromStr, doc.as_bytes(), "offset-sweep", &mut rng);
                    }
                    let j = format!("{{\"_kind\":\"dateTime\",\"val\":\"2021-08-06T17:05:00{sign}{hh:02}:{mm:02}\",\"tz\":\"London\"}}");
                    monitor(ctx, Entry::JsonStr, j.as_bytes(), "offset-sweep", &mut rng);
                }
            }
        }
        for n in [1usize, 2, 9, 10, 11, 19, 20, 21, 39, 40, 308, 309, 310, 400, 1100, 5000] {
            let run = "9".repeat(n);
            let zeros = "0".repeat(n);
            ctx.eval("digit-runs", n as u64, true);
            for doc in [
                format!("1e{run}"), format!("1e-{run}"), format!("1E+{run}kW"), format!("1e{zeros}1"), format!("{run}"), format!("-{run}.{run}"), format!("0.{zeros}1"), format!("{run}e-{run}"),
                format!("1.{run}e{n}"), format!("C({run},{run})"), format!("C(0.{zeros}1,1)"), format!("{run}-01-01"), format!("2021-01-01T00:00:00.{run}Z"), format!("12:00:00.{run}"), format!("[1e{run},2]"),
            ] {
                monitor(ctx, Entry::FromStr, doc.as_bytes(), "digit-runs", &mut rng);
            }
            for j in [format!("{run}"), format!("1e{run}"), format!("{{\"_kind\":\"number\",\"val\":1e-{run}}}"), format!("0.{zeros}1"), format!("{{\"_kind\":\"coord\",\"lat\":{run},\"lng\":1}}")] {
                monitor(ctx, Entry::JsonStr, j.as_bytes(), "digit-runs", &mut rng);
            }
        }
    }

    // --- corpus slices: prefixes and mutants ---------------------------------------------------
    let corpus = corpus_slices();
    ctx.note("corpus_slices", json!(corpus.len()));
    let n = ctx.n(400, 8_000);
    for i in 0..n {
        if corpus.is_empty() || !ctx.begin("corpus", i) {
            continue;
        }
        let mut rng = ctx.case_rng("corpus", i);
        let base = &corpus[rng.below(corpus.len())];
        let (data, class) = match rng.below(3) {
            0 => (base[..rng.below(base.len() + 1)].to_vec(), "corpus-prefix"),
            1 => {
                let (d, _) = mutate(&mut rng, base, &ZINC_TOKENS);
                (d, "corpus-mutant")
            }
            _ => (base.clone(), "corpus-slice"),
        };
        ctx.eval(class, crate::prng::hash_str(&String::from_utf8_lossy(&data)), true);
        all_zinc(ctx, &data, class, &mut rng);
    }

    // --- grammar-generated documents: the document, its prefixes, its mutants -------------------
    let n = ctx.n(500, 12_000);
    let all_prefixes = !ctx.quick();
    for i in 0..n {
        if !ctx.begin("grammar", i) {
            continue;
        }
        let mut rng = ctx.case_rng("grammar", i);
        let (_, text) = grammar_doc(&mut rng, 3);
        if text.len() > 4096 {
            continue;
        }
        let bytes = text.as_bytes();
        ctx.eval("grammar-doc", crate::prng::hash_str(&text), true);
        if ctx.wants_sample("grammar-doc") && text.len() < 300 {
            ctx.sample("grammar-doc", json!(text));
        }
        all_zinc(ctx, bytes, "grammar-doc", &mut rng);
        // prefixes (every truncation point in thorough, 48 sampled in quick)
        let cuts: Vec<usize> = if all_prefixes && bytes.len() <= 1500 { (0..bytes.len()).collect() } else { (0..48).map(|_| rng.below(bytes.len() + 1)).collect() };
        for c in cuts {
            let p = &bytes[..c];
            ctx.eval("prefix", crate::prng::mix(&[crate::prng::hash_str(&text), c as u64]), true);
            match rng.below(3) {
                0 => monitor(ctx, Entry::FromStr, p, "prefix", &mut rng),
                1 => monitor(ctx, Entry::Reader, p, "prefix", &mut rng),
                _ => monitor(ctx, Entry::LazyRows, p, "prefix", &mut rng),
            }
        }
        // mutants: 1-3 stacked small mutations
        for _ in 0..24 {
            let mut d = bytes.to_vec();
            let mut names = Vec::new();
            for _ in 0..1 + rng.below(3) {
                let (m, name) = mutate(&mut rng, &d, &ZINC_TOKENS);
                d = m;
                names.push(name);
            }
            ctx.eval("mutant", crate::prng::hash_str(&String::from_utf8_lossy(&d)), true);
            ctx.stratum(&format!("mutation:{}", names[0]));
            if ctx.wants_sample("mutant") && d.len() < 200 {
                ctx.sample("mutant", json!({"mutations": names, "text": String::from_utf8_lossy(&d)}));
            }
            match rng.below(3) {
                0 => monitor(ctx, Entry::FromStr, &d, "mutant", &mut rng),
                1 => monitor(ctx, Entry::Reader, &d, "mutant", &mut rng),
                _ => monitor(ctx, Entry::LazyRows, &d, "mutant", &mut rng),
            }
        }
    }

    // --- Hayson documents: the document, prefixes, mutants ---------------------------------------
    let n = ctx.n(400, 10_000);
    for i in 0..n {
        if !ctx.begin("hayson", i) {
            continue;
        }
        let mut rng = ctx.case_rng("hayson", i);
        let m = gen_value(&mut rng, 3);
        let v = to_value_with(&m, rng.next_u64());
        // base document: the library's own spelling, or the reference writer's (member orders, escapes, spellings)
        let text = if rng.coin() {
            crate::refjson::write_hayson(&mut rng, &m, true).0
        } else {
            match serde_json::to_string(&v) {
                Ok(t) => t,
                Err(_) => continue,
            }
        };
        if text.len() > 4096 {
            continue;
        }
        let bytes = text.as_bytes();
        ctx.eval("hayson-doc", crate::prng::hash_str(&text), true);
        all_json(ctx, bytes, "hayson-doc", &mut rng);
        for _ in 0..16 {
            let c = rng.below(bytes.len() + 1);
            ctx.eval("hayson-prefix", crate::prng::mix(&[crate::prng::hash_str(&text), c as u64]), true);
            monitor(ctx, Entry::JsonSlice, &bytes[..c], "hayson-prefix", &mut rng);
        }
        for _ in 0..24 {
            let mut d = bytes.to_vec();
            for _ in 0..1 + rng.below(3) {
                d = mutate(&mut rng, &d, &JSON_TOKENS).0;
            }
            ctx.eval("hayson-mutant", crate::prng::hash_str(&String::from_utf8_lossy(&d)), true);
            if rng.coin() {
                monitor(ctx, Entry::JsonSlice, &d, "hayson-mutant", &mut rng);
            } else {
                monitor(ctx, Entry::JsonStr, &d, "hayson-mutant", &mut rng);
            }
        }
    }

    // --- arbitrary bytes / token soup ------------------------------------------------------------
    let n = ctx.n(6_000, 200_000);
    for i in 0..n {
        if !ctx.begin("bytes", i) {
            continue;
        }
        let mut rng = ctx.case_rng("bytes", i);
        let d = random_bytes(&mut rng, 160);
        ctx.eval("bytes", crate::prng::hash_str(&String::from_utf8_lossy(&d)), d.len() > 1);
        all_zinc(ctx, &d, "bytes", &mut rng);
        if i % 4 == 0 {
            let s = token_soup(&mut rng, &JSON_TOKENS, 120);
            ctx.eval("json-soup", crate::prng::hash_str(&s), s.len() > 1);
            all_json(ctx, s.as_bytes(), "json-soup", &mut rng);
        }
    }
}
