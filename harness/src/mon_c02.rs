//! C02 — Hayson encode -> decode returns the original value, through all serde_json entry points.

use crate::bridge::{observe, to_value_with};
use crate::ctx::{truncate, Ctx};
use crate::gen::{gen_scalar_of_kind, gen_value, strata_of};
use crate::model::{diff, MVal};
use crate::shrink::{shape, shrink};
use crate::util::{catch, panic_sig};
use libhaystack::val::*;
use serde_json::json;

pub struct RtFail {
    pub class: String,
    pub detail: String,
    pub text: Option<String>,
}

/// enc: 0 to_string, 1 to_vec, 2 to_value, 3 to_writer (a sink taking a few bytes per write);
/// dec: 0 from_str, 1 from_slice, 2 from_value, 3 from_reader (a source handing out a few bytes per read)
pub fn json_roundtrip(m: &MVal, bits: u64, enc: u8, dec: u8) -> Result<String, RtFail> {
    let v = to_value_with(m, bits);
    let r = catch(|| -> Result<(String, Result<Value, String>), String> {
        match enc {
            0 | 1 | 3 => {
                let text = if enc == 0 {
                    serde_json::to_string(&v).map_err(|e| e.to_string())?
                } else if enc == 1 {
                    String::from_utf8(serde_json::to_vec(&v).map_err(|e| e.to_string())?).map_err(|e| e.to_string())?
                } else {
                    let mut w = crate::readers::ShortWriter::new(1 + (bits % 5) as usize);
                    serde_json::to_writer(&mut w, &v).map_err(|e| e.to_string())?;
                    String::from_utf8(w.out).map_err(|e| e.to_string())?
                };
                let back = match dec {
                    0 => serde_json::from_str::<Value>(&text).map_err(|e| e.to_string()),
                    1 => serde_json::from_slice::<Value>(text.as_bytes()).map_err(|e| e.to_string()),
                    3 => serde_json::from_reader::<_, Value>(crate::readers::HostileReader::new(text.as_bytes(), crate::readers::Chunking::Random(text.len() as u64 ^ bits), true, None)).map_err(|e| e.to_string()),
                    _ => match serde_json::from_str::<serde_json::Value>(&text) {
                        Ok(j) => serde_json::from_value::<Value>(j).map_err(|e| e.to_string()),
                        Err(e) => Err(format!("encoder output is not JSON: {e}")),
                    },
                };
                Ok((text, back))
            }
            _ => {
                let j = serde_json::to_value(&v).map_err(|e| e.to_string())?;
                let text = j.to_string();
                let back = match dec {
                    0 => serde_json::from_str::<Value>(&text).map_err(|e| e.to_string()),
                    1 => serde_json::from_slice::<Value>(text.as_bytes()).map_err(|e| e.to_string()),
                    3 => serde_json::from_reader::<_, Value>(crate::readers::HostileReader::new(text.as_bytes(), crate::readers::Chunking::Random(text.len() as u64 ^ bits), true, None)).map_err(|e| e.to_string()),
                    _ => serde_json::from_value::<Value>(j).map_err(|e| e.to_string()),
                };
                Ok((text, back))
            }
        }
    });
    let (text, back) = match r {
        Err(p) => return Err(RtFail { class: panic_sig(&p), detail: format!("panicked: {} at {}:{}", p.msg, p.file, p.line), text: None }),
        Ok(Err(e)) => return Err(RtFail { class: "encode-err".into(), detail: format!("encoder returned error: {e}"), text: None }),
        Ok(Ok(x)) => x,
    };
    let back = match back {
        Err(e) => return Err(RtFail { class: "decode-err".into(), detail: format!("decoder rejected encoder output: {e}"), text: Some(text) }),
        Ok(b) => b,
    };
    match diff(m, &observe(&back)) {
        None => Ok(text),
        Some(d) => Err(RtFail { class: "mismatch".into(), detail: d, text: Some(text) }),
    }
}

macro_rules! typed_rt {
    ($x:expr, $t:ty, $wrap:expr) => {{
        let text = serde_json::to_string($x).map_err(|e| format!("typed encode: {e}"))?;
        let back: $t = serde_json::from_str(&text).map_err(|e| format!("typed decode of {text}: {e}"))?;
        Ok(Some((text, $wrap(back))))
    }};
}

/// Round trip through the typed Serialize + Deserialize impl of the value's own type.
fn typed_roundtrip(v: &Value) -> Result<Option<(String, Value)>, String> {
    match v {
        Value::Marker => typed_rt!(&Marker, Marker, |_| Value::Marker),
        Value::Na => typed_rt!(&Na, Na, |_| Value::Na),
        Value::Remove => typed_rt!(&Remove, Remove, |_| Value::Remove),
        Value::Number(x) => typed_rt!(x, Number, Value::Number),
        Value::Ref(x) => typed_rt!(x, Ref, Value::Ref),
        Value::Uri(x) => typed_rt!(x, Uri, Value::Uri),
        Value::Symbol(x) => typed_rt!(x, Symbol, Value::Symbol),
        Value::Date(x) => typed_rt!(x, Date, Value::Date),
        Value::Time(x) => typed_rt!(x, Time, Value::Time),
        Value::DateTime(x) => typed_rt!(x, DateTime, Value::DateTime),
        Value::Coord(x) => typed_rt!(x, Coord, Value::Coord),
        Value::XStr(x) => typed_rt!(x, XStr, Value::XStr),
        Value::Dict(x) => typed_rt!(x, Dict, Value::Dict),
        Value::Grid(x) => typed_rt!(x, Grid, Value::Grid),
        Value::List(x) => typed_rt!(x, List, Value::List),
        // Str has a typed deserialiser only: feed it the Value's own text
        Value::Str(_) => typed_rt!(v, Str, Value::Str),
        _ => Ok(None),
    }
}

/// maximum bracket nesting of a JSON text (brackets inside strings do not count)
fn json_nesting(t: &str) -> usize {
    let (mut d, mut max, mut in_str, mut esc) = (0usize, 0usize, false, false);
    for b in t.bytes() {
        if in_str {
            if esc {
                esc = false;
            } else if b == b'\\' {
                esc = true;
            } else if b == b'"' {
                in_str = false;
            }
            continue;
        }
        match b {
            b'"' => in_str = true,
            b'{' | b'[' => {
                d += 1;
                max = max.max(d);
            }
            b'}' | b']' => d = d.saturating_sub(1),
            _ => {}
        }
    }
    max
}

pub fn report(ctx: &mut Ctx, m: &MVal, bits: u64, enc: u8, dec: u8, first: RtFail) {
    if ctx.shrinks >= 40 {
        ctx.violation(&format!("json-roundtrip:{}:unshrunk", first.class), &first.detail, json!({"value": truncate(&m.show(), 1500), "json": first.text.map(|t| truncate(&t, 1500))}));
        return;
    }
    ctx.shrinks += 1;
    let class = first.class.clone();
    let min = shrink(m, &mut |c| matches!(json_roundtrip(c, bits, enc, dec), Err(f) if f.class == class));
    let f = json_roundtrip(&min, bits, enc, dec).err().unwrap_or(first);
    let sig = format!("json-roundtrip:{}:{}", f.class, shape(&min));
    ctx.violation(
        &sig,
        &format!("{} — {}", shape(&min), f.detail),
        json!({"value": truncate(&min.show(), 1500), "json": f.text.map(|t| truncate(&t, 1500)), "detail": f.detail,
               "entry_points": format!("enc={} dec={}", ["to_string","to_vec","to_value","to_writer"][enc as usize], ["from_str","from_slice","from_value","from_reader"][dec as usize]),
               "original": truncate(&m.show(), 600)}),
    );
}

pub fn run(ctx: &mut Ctx) {
    let depth = if ctx.quick() { 4 } else { 6 };
    let n = ctx.n(6_000, 100_000);
    for i in 0..n {
        if !ctx.begin("scalar", i) {
            continue;
        }
        let mut rng = ctx.case_rng("scalar", i);
        let m = gen_scalar_of_kind(&mut rng, (i % 15) as usize);
        for s in strata_of(&m) {
            ctx.stratum(s);
        }
        ctx.eval(m.kind_name(), m.fp(), !matches!(m, MVal::Null | MVal::Marker | MVal::Na | MVal::Remove | MVal::Bool(_)));
        if ctx.wants_sample(m.kind_name()) {
            ctx.sample(m.kind_name(), json!(truncate(&m.show(), 300)));
        }
        let enc = ((i / 15) % 4) as u8;
        let dec = ((i / 60) % 4) as u8;
        ctx.stratum(&format!("entry:{}x{}", ["to_string", "to_vec", "to_value", "to_writer"][enc as usize], ["from_str", "from_slice", "from_value", "from_reader"][dec as usize]));
        if let Err(f) = json_roundtrip(&m, 0, enc, dec) {
            report(ctx, &m, 0, enc, dec, f);
            continue;
        }
        // typed impl
        let v = to_value_with(&m, 0);
        match catch(|| typed_roundtrip(&v)) {
            Err(p) => ctx.violation(&format!("typed-json:{}:{}", panic_sig(&p), m.kind_name()), &p.msg, json!({"value": m.show()})),
            Ok(Err(e)) => ctx.violation(&format!("typed-json:error:{}", shape(&m)), &e, json!({"value": m.show()})),
            Ok(Ok(None)) => {}
            Ok(Ok(Some((text, back)))) => {
                ctx.stratum("typed-impl");
                if let Some(d) = diff(&m, &observe(&back)) {
                    ctx.violation(&format!("typed-json:mismatch:{}", shape(&m)), &d, json!({"value": m.show(), "json": text}));
                }
            }
        }
    }
    let n = ctx.n(14_000, 250_000);
    for i in 0..n {
        if !ctx.begin("value", i) {
            continue;
        }
        let mut rng = ctx.case_rng("value", i);
        let m = gen_value(&mut rng, depth);
        let bits = rng.next_u64();
        let enc = rng.below(4) as u8;
        let dec = rng.below(4) as u8;
        for s in strata_of(&m) {
            ctx.stratum(s);
        }
        ctx.stratum(&format!("depth:{}", m.depth()));
        ctx.stratum(&format!("entry:{}x{}", ["to_string", "to_vec", "to_value", "to_writer"][enc as usize], ["from_str", "from_slice", "from_value", "from_reader"][dec as usize]));
        ctx.eval("value", m.fp(), m.size() > 1);
        if m.depth() >= 2 && ctx.wants_sample("nested") {
            ctx.sample("nested", json!(truncate(&m.show(), 400)));
        }
        if let Err(f) = json_roundtrip(&m, bits, enc, dec) {
            report(ctx, &m, bits, enc, dec, f);
            continue;
        }
        if matches!(m, MVal::Dict(_) | MVal::Grid(_) | MVal::List(_)) {
            let v = to_value_with(&m, bits);
            match catch(|| typed_roundtrip(&v)) {
                Err(p) => ctx.violation(&format!("typed-json:{}:{}", panic_sig(&p), m.kind_name()), &p.msg, json!({"value": truncate(&m.show(), 800)})),
                Ok(Err(e)) => ctx.violation(&format!("typed-json:error:{}", m.kind_name()), &e, json!({"value": truncate(&m.show(), 800)})),
                Ok(Ok(None)) => {}
                Ok(Ok(Some((text, back)))) => {
                    ctx.stratum("typed-impl");
                    if let Some(d) = diff(&m, &observe(&back)) {
                        ctx.violation(&format!("typed-json:mismatch:{}", m.kind_name()), &d, json!({"value": truncate(&m.show(), 800), "json": truncate(&text, 800)}));
                    }
                }
            }
        }
    }
    // wide values: more than 128 siblings at one level
    let n = ctx.n(60, 1_000);
    for i in 0..n {
        if !ctx.begin("wide", i) {
            continue;
        }
        let mut rng = ctx.case_rng("wide", i);
        let m = crate::gen::gen_wide(&mut rng);
        ctx.eval("wide", m.fp(), true);
        let (enc, dec) = ((i % 4) as u8, ((i / 4) % 4) as u8);
        if let Err(f) = json_roundtrip(&m, 0, enc, dec) {
            report(ctx, &m, 0, enc, dec, f);
        }
    }
    // boundary offsets: a character that needs an escape or several bytes, at every byte offset up to 1100 and around
    // 2^11, 2^12, 2^13, 2^16 of a Str, a Ref display name, an XStr value, a Uri and a dict tag
    {
        let lens = crate::gen::boundary_lengths();
        for (li, n) in lens.iter().enumerate() {
            if (li as u64) % ctx.nshards != ctx.shard || (ctx.quick() && *n > 1100 && *n < 65000) {
                continue;
            }
            if !ctx.begin("boundary-offset", li as u64) {
                continue;
            }
            for c in crate::gen::BOUNDARY_CHARS {
                let m = crate::gen::boundary_value(*n, c);
                ctx.eval("boundary-offset", crate::prng::mix(&[*n as u64, c as u64]), true);
                let (enc, dec) = ((*n % 4) as u8, ((*n / 4) % 4) as u8);
                if let Err(f) = json_roundtrip(&m, 0, enc, dec) {
                    report(ctx, &m, 0, enc, dec, f);
                }
            }
        }
    }
    // deep chains: every depth up to the decoder's documented limit (127 nested containers; for Hayson a grid costs
    // three JSON levels of serde_json's 128, so grid chains stop at 42)
    if ctx.shard == 0 {
        let families: [(&str, &[u8]); 5] = [("list", &[0]), ("dict", &[1]), ("grid", &[2]), ("mixed", &[0, 1, 2]), ("meta", &[2, 3, 4, 1])];
        let mut idx = 0u64;
        for (fam, kinds) in families {
            for d in [1usize, 2, 3, 5, 8, 13, 21, 34, 40, 42, 55, 64, 89, 100, 120, 126, 126, 126, 126, 126, 126, 126, 127, 127, 127, 127, 127, 127, 127] {
                let i = idx;
                idx += 1;
                // serde_json counts JSON levels (a grid level is an object, an array and an object; a Ref is an object):
                // cheap pre-filter here, the exact count is taken from the document below
                if d > 127 {
                    continue;
                }
                if !ctx.begin("deep-chain", i) {
                    continue;
                }
                let mut rng = ctx.case_rng("deep-chain", i);
                // at the deepest levels every kind of innermost value in turn, elsewhere a random one
                let m = if d >= 126 { crate::gen::deep_chain_with_leaf(&mut rng, d, kinds, (i % 7) as usize) } else { crate::gen::deep_chain(&mut rng, d, kinds) };
                ctx.eval(&format!("deep-chain:{fam}"), m.fp(), true);
                ctx.note_max("max_nesting_depth_round_tripped", d as f64);
                // deeper than serde_json's limit of 128 levels: outside the stated bound
                let levels = serde_json::to_string(&to_value_with(&m, 0)).map(|t| json_nesting(&t)).unwrap_or(usize::MAX);
                if levels > 127 {
                    ctx.stratum("deep-chain:beyond-serde_json-limit");
                    continue;
                }
                ctx.note_max("max_json_levels_round_tripped", levels as f64);
                let (enc, dec) = ((d % 4) as u8, ((d / 4) % 4) as u8);
                if let Err(f) = json_roundtrip(&m, 0, enc, dec) {
                    report(ctx, &m, 0, enc, dec, f);
                }
            }
        }
    }
}
