//! C13 — namespace queries agree with the subtype graph (graph oracle refdefs.rs).

use crate::ctx::{truncate, Ctx};
use crate::prng::Rng;
use crate::refdefs::{Graph, Set};
use crate::util::{catch, panic_sig};
use libhaystack::defs::namespace::{DefDict, Namespace};
use libhaystack::filter::eval::EvalContext;
use libhaystack::filter::{Eval, Filter};
use libhaystack::val::{Dict, Grid, HaystackDict, Symbol, Value};
use serde_json::json;

pub fn graph_of(grid: &Grid) -> Graph {
    let mut g = Graph::default();
    for row in &grid.rows {
        if let Some(Value::Symbol(def)) = row.get("def") {
            let is: Vec<String> = match row.get("is") {
                Some(Value::List(l)) => l.iter().filter_map(|v| if let Value::Symbol(s) = v { Some(s.value.clone()) } else { None }).collect(),
                _ => vec![],
            };
            // later rows with the same def name win (BTreeMap collect semantics)
            g.is.insert(def.value.clone(), is);
        }
    }
    g
}

pub fn names<'a>(defs: impl IntoIterator<Item = &'a Dict>) -> Set {
    defs.into_iter().map(|d| d.def_name().clone()).collect()
}

/// A heap-allocated namespace handed out as `&'static` (its cache methods need `&'a Namespace<'a>`),
/// reclaimed through the original raw pointer once no borrow is alive.
#[derive(Clone, Copy)]
pub struct NsHandle {
    ptr: *mut Namespace<'static>,
}
unsafe impl Send for NsHandle {}
unsafe impl Sync for NsHandle {}

impl NsHandle {
    pub fn get(&self) -> &'static Namespace<'static> {
        unsafe { &*self.ptr }
    }
}

pub fn leak_ns(grid: Grid) -> NsHandle {
    NsHandle { ptr: Box::into_raw(Box::new(Namespace::make(grid))) }
}

/// # Safety: no borrow obtained from the handle may be alive.
pub unsafe fn reclaim_ns(h: NsHandle) {
    drop(Box::from_raw(h.ptr));
}

pub struct Mismatch {
    pub query: String,
    pub detail: String,
}

fn cmp_sets(query: &str, arg: &str, got: Set, want: Set) -> Option<Mismatch> {
    if got == want {
        None
    } else {
        let extra: Vec<&String> = got.difference(&want).take(5).collect();
        let missing: Vec<&String> = want.difference(&got).take(5).collect();
        Some(Mismatch { query: query.to_string(), detail: format!("{query}({arg}): extra {:?} missing {:?} (got {} want {})", extra, missing, got.len(), want.len()) })
    }
}

/// All per-symbol queries for one symbol against the oracle.
pub fn check_symbol(ns: &'static Namespace<'static>, g: &Graph, s: &str) -> Vec<Mismatch> {
    let sym = Symbol::from(s);
    let mut out = Vec::new();
    let mut push = |m: Option<Mismatch>| {
        if let Some(m) = m {
            out.push(m)
        }
    };
    push(cmp_sets("supertypes_of", s, names(ns.supertypes_of(&sym).iter().copied()), g.supertypes(s)));
    push(cmp_sets("all_supertypes_of", s, names(ns.all_supertypes_of(&sym)), g.all_supertypes(s)));
    push(cmp_sets("subtypes_of", s, names(ns.subtypes_of(&sym).iter()), g.subtypes(s)));
    push(cmp_sets("all_subtypes_of", s, names(ns.all_subtypes_of(&sym)), g.all_subtypes(s)));
    push(cmp_sets("inheritance", s, names(ns.inheritance(&sym).iter().copied()), g.inheritance(s)));
    push(cmp_sets("choices_for", s, names(ns.choices_for(&sym).iter()), g.choices_for(s)));
    push(cmp_sets("conjuncts_defs", s, names(ns.conjuncts_defs(&sym)), g.conjunct_parts(s)));
    if ns.has(&sym) != g.defined(s) || ns.has_name(s) != g.defined(s) || ns.get(&sym).is_some() != g.defined(s) {
        out.push(Mismatch { query: "has".into(), detail: format!("has/get({s}) disagree with the grid") });
    }
    if ns.has_subtype(&sym) != !g.subtypes(s).is_empty() {
        out.push(Mismatch { query: "has_subtype".into(), detail: format!("has_subtype({s})") });
    }
    for (name, got) in [("fits_marker", ns.fits_marker(&sym)), ("fits_val", ns.fits_val(&sym)), ("fits_choice", ns.fits_choice(&sym)), ("fits_entity", ns.fits_entity(&sym))] {
        let base = &name[5..];
        if got != g.fits(s, base) {
            out.push(Mismatch { query: name.into(), detail: format!("{name}({s}) = {got}, graph says {}", g.fits(s, base)) });
        }
    }
    out
}

/// def name -> def row (later rows with the same name win, as in `graph_of`)
pub type DefMap = std::collections::BTreeMap<String, Dict>;

pub fn defmap_of(grid: &Grid) -> DefMap {
    let mut m = DefMap::new();
    for row in &grid.rows {
        if let Some(Value::Symbol(def)) = row.get("def") {
            m.insert(def.value.clone(), row.clone());
        }
    }
    m
}

/// the symbol names in the list stored under `key` (nothing when the tag is absent or not a list)
fn sym_list(d: &Dict, key: &str) -> Vec<String> {
    match d.get(key) {
        Some(Value::List(l)) => l.iter().filter_map(|v| if let Value::Symbol(s) = v { Some(s.value.clone()) } else { None }).collect(),
        _ => vec![],
    }
}

/// What `associations(parent, assoc)` has to return, read off the defs grid and the graph:
/// nothing unless `assoc` is a def that lists `association` in its `is`; the defined symbols of the parent's own
/// `assoc` list (in order) for a stored association; for one computed from its reciprocal, every def whose
/// reciprocal list names a def in the parent's inheritance. Returns (names, order_is_defined).
fn assoc_oracle(defs: &DefMap, g: &Graph, parent: &str, assoc: &str) -> (Vec<String>, bool) {
    let Some(adef) = defs.get(assoc) else { return (vec![], true) };
    if !sym_list(adef, "is").iter().any(|s| s == "association") {
        return (vec![], true);
    }
    if !adef.contains_key("computedFromReciprocal") {
        let l = defs.get(parent).map(|d| sym_list(d, assoc)).unwrap_or_default();
        return (l.into_iter().filter(|s| g.defined(s)).collect(), true);
    }
    let Some(Value::Symbol(rec)) = adef.get("reciprocalOf") else { return (vec![], true) };
    if !g.defined(&rec.value) {
        return (vec![], true);
    }
    let inh = g.inheritance(parent);
    let mut out: Vec<String> = defs.iter().filter(|(_, d)| sym_list(d, &rec.value).iter().any(|t| g.defined(t) && inh.contains(t))).map(|(n, _)| n.clone()).collect();
    out.sort();
    (out, false)
}

const ASSOCS: [&str; 8] = ["is", "tagOn", "tags", "relA", "relB", "association", "zzNoAssoc", "marker"];

/// associations / is / tag_on / tags / implementation for one symbol
pub fn check_assoc(ns: &'static Namespace<'static>, defs: &DefMap, g: &Graph, s: &str) -> Vec<Mismatch> {
    let sym = Symbol::from(s);
    let mut out = Vec::new();
    let list = |v: Vec<&Dict>| -> Vec<String> { v.into_iter().map(|d| d.def_name().clone()).collect() };
    for a in ASSOCS {
        let (want, ordered) = assoc_oracle(defs, g, s, a);
        let mut got = list(ns.associations(&sym, &Symbol::from(a)));
        if !ordered {
            got.sort();
        }
        if got != want {
            out.push(Mismatch { query: format!("associations:{a}"), detail: format!("associations({s},{a}) = {:?}, the defs grid says {:?}", truncate(&format!("{got:?}"), 300), truncate(&format!("{want:?}"), 300)) });
        }
    }
    for (name, got, a) in [("is", list(ns.is(&sym)), "is"), ("tag_on", list(ns.tag_on(&sym)), "tagOn")] {
        let (want, _) = assoc_oracle(defs, g, s, a);
        if got != want {
            out.push(Mismatch { query: name.into(), detail: format!("{name}({s}) = {got:?}, the defs grid says {want:?}") });
        }
    }
    {
        let (want, _) = assoc_oracle(defs, g, s, "tags");
        let mut got = list(ns.tags(&sym));
        got.sort();
        if got != want {
            out.push(Mismatch { query: "tags".into(), detail: format!("tags({s}) = {}, the defs grid says {}", truncate(&format!("{got:?}"), 300), truncate(&format!("{want:?}"), 300)) });
        }
    }
    // implementation: the def itself / a conjunct's defined parts (feature keys excluded), then every mandatory
    // transitive supertype of those
    {
        let base: Vec<String> = s.split('-').filter(|p| g.defined(p) && !p.contains(':')).map(|p| p.to_string()).collect();
        let mut want: Set = base.iter().cloned().collect();
        let mut sup = Set::new();
        for b in &base {
            sup.extend(g.all_supertypes(b));
        }
        for x in sup {
            if defs.get(&x).is_some_and(|d| matches!(d.get("mandatory"), Some(Value::Marker))) {
                want.insert(x);
            }
        }
        let got: Set = list(ns.implementation(&sym)).into_iter().collect();
        if let Some(m) = cmp_sets("implementation", s, got, want) {
            out.push(m);
        }
    }
    out
}

/// protos(parent): for every tag of the parent that is a def with `children`, each child prototype plus the
/// parent's non-null tags that fit one of the def's `childrenFlatten` symbols; duplicates removed.
pub fn check_protos(ns: &'static Namespace<'static>, defs: &DefMap, g: &Graph, parent: &Dict) -> Vec<Mismatch> {
    let mut want: std::collections::BTreeSet<String> = Default::default();
    for name in parent.keys() {
        let Some(def) = defs.get(name) else { continue };
        let children: Vec<Dict> = match def.get("children") {
            Some(Value::Str(text)) => text
                .value
                .split('\n')
                .map(|l| l.trim())
                .filter(|l| !l.is_empty() && !l.starts_with("//"))
                .filter_map(|l| match libhaystack::encoding::zinc::decode::from_str(&format!("{{{l}}}")) {
                    Ok(Value::Dict(d)) if !d.is_empty() => Some(d),
                    _ => None,
                })
                .collect(),
            Some(Value::List(l)) => l.iter().filter_map(|v| if let Value::Dict(d) = v { Some(d.clone()) } else { None }).collect(),
            _ => continue,
        };
        let mut flat = Dict::new();
        for fsym in sym_list(def, "childrenFlatten") {
            for (k, v) in parent.iter() {
                if g.fits(k, &fsym) && !v.is_null() {
                    flat.insert(k.clone(), v.clone());
                }
            }
        }
        for mut c in children {
            for (k, v) in flat.iter() {
                c.insert(k.clone(), v.clone());
            }
            want.insert(crate::bridge::observe(&Value::make_dict(c)).show());
        }
    }
    let got_list = ns.protos(parent);
    let got: std::collections::BTreeSet<String> = got_list.iter().map(|d| crate::bridge::observe(&Value::make_dict(d.clone())).show()).collect();
    let mut out = Vec::new();
    if got != want {
        out.push(Mismatch { query: "protos".into(), detail: format!("protos of {:?}: {} prototypes, expected {}; e.g. extra {:?} missing {:?}", parent.keys().collect::<Vec<_>>(), got.len(), want.len(), got.difference(&want).next().map(|s| truncate(s, 200)), want.difference(&got).next().map(|s| truncate(s, 200))) });
    } else if got_list.len() != got.len() {
        out.push(Mismatch { query: "protos".into(), detail: format!("protos of {:?} holds duplicates ({} entries, {} distinct)", parent.keys().collect::<Vec<_>>(), got_list.len(), got.len()) });
    }
    out
}

pub fn check_reflect(ns: &'static Namespace<'static>, g: &Graph, rec: &Dict, probes: &[String]) -> Vec<Mismatch> {
    let mut out = Vec::new();
    let tags: Vec<(String, bool)> = rec.iter().map(|(k, v)| (k.clone(), v.is_marker())).collect();
    let want = g.reflect(&tags);
    let refl = ns.reflect(rec);
    let got = names(refl.defs.iter().copied());
    if let Some(m) = cmp_sets("reflect", &format!("{:?}", rec.keys().collect::<Vec<_>>()), got, want.clone()) {
        out.push(m);
    }
    // entity type: when exactly one reflected def fits 'entity' it is the record's entity type; when none does, there is none
    if g.defined("entity") {
        let ents: Vec<&String> = want.iter().filter(|d| g.fits(d, "entity")).collect();
        // the most specific ones: not a supertype of another reflected entity def
        let specific: Vec<&&String> = ents.iter().filter(|d| !ents.iter().any(|o| o != *d && g.inheritance(o).contains(**d))).collect();
        let got_name = refl.entity_type.def_name().clone();
        if ents.is_empty() {
            if !refl.entity_type.is_empty() {
                out.push(Mismatch { query: "entity_type".into(), detail: format!("record {:?} has entity type {got_name:?} although no reflected def fits entity", rec.keys().collect::<Vec<_>>()) });
            }
        } else if specific.len() == 1 && got_name != ***specific[0] {
            out.push(Mismatch { query: "entity_type".into(), detail: format!("record {:?}: entity type {got_name:?}, the only most specific reflected entity def is {:?}", rec.keys().collect::<Vec<_>>(), specific[0]) });
        }
    }
    // def_of_dict wants the record to outlive the namespace borrow: hand it a heap copy and take it back afterwards
    let def_of = {
        let raw = Box::into_raw(Box::new(rec.clone()));
        let d = ns.def_of_dict(unsafe { &*raw });
        drop(unsafe { Box::from_raw(raw) });
        d
    };
    if crate::bridge::observe(&Value::make_dict(def_of)) != crate::bridge::observe(&Value::make_dict(refl.entity_type.clone())) {
        out.push(Mismatch { query: "def_of_dict".into(), detail: format!("def_of_dict of {:?} is not the reflection's entity type", rec.keys().collect::<Vec<_>>()) });
    }
    // probes: the given symbols plus the record's own tag names (defined or not) and their conjunct spellings
    let mut all_probes: Vec<String> = probes.to_vec();
    all_probes.extend(rec.keys().cloned());
    for p in &all_probes {
        let expect = want.iter().any(|d| g.fits(d, p));
        let got = refl.fits(&Symbol::from(p.as_str()));
        if got != expect {
            out.push(Mismatch { query: "Reflection::fits".into(), detail: format!("reflection of {:?} fits {p}: {got}, graph says {expect}", rec.keys().collect::<Vec<_>>()) });
        }
        // '^sym' in a filter, through an EvalContext over this namespace
        if p.chars().next().is_some_and(|c| c.is_ascii_lowercase()) && p.chars().all(|c| c.is_ascii_alphanumeric() || "_:-.~".contains(c)) {
            if let Ok(f) = Filter::try_from(format!("^{p}").as_str()) {
                let c = EvalContext::make(rec, ns, rec);
                let got = f.eval(&c);
                if got != expect {
                    out.push(Mismatch { query: "filter-isa".into(), detail: format!("'^{p}' on {:?} is {got}, graph says {expect}", rec.keys().collect::<Vec<_>>()) });
                }
            }
        }
    }
    out
}

fn report(ctx: &mut Ctx, world: &str, ms: Vec<Mismatch>, witness: serde_json::Value) {
    for m in ms {
        ctx.violation(&format!("defs:{}:{}", world, m.query), &m.detail, witness.clone());
    }
}

fn sym(s: &str) -> Value {
    Value::make_symbol(s)
}

/// Random acyclic taxonomy: defs d0..dn, each `is` a subset of earlier defs (so no cycles), diamonds and
/// multiple inheritance, some undefined supertypes, a 'choice' root, conjuncts of defined parts, feature keys.
pub fn random_taxonomy(rng: &mut Rng) -> (Grid, Vec<String>) {
    let n = 4 + rng.below(40);
    let mut names: Vec<String> = vec!["marker".into(), "val".into(), "choice".into(), "entity".into()];
    let mut rows: Vec<Dict> = Vec::new();
    let mk = |name: &str, is: Vec<String>, extra: Option<(&str, Value)>| {
        let mut d = Dict::new();
        d.insert("def".into(), sym(name));
        if !is.is_empty() {
            d.insert("is".into(), Value::make_list(is.iter().map(|s| sym(s)).collect()));
        }
        if let Some((k, v)) = extra {
            d.insert(k.into(), v);
        }
        d
    };
    rows.push(mk("marker", vec![], None));
    rows.push(mk("val", vec![], None));
    rows.push(mk("choice", vec!["marker".into()], None));
    rows.push(mk("entity", vec!["marker".into()], None));
    let max_depth_window = 10usize;
    let mut depth: Vec<usize> = vec![0, 0, 1, 1];
    for i in 0..n {
        let name = format!("d{i}");
        let k = 1 + rng.below(3);
        let mut is: Vec<String> = Vec::new();
        let mut dmax = 0;
        for _ in 0..k {
            if rng.chance(1, 12) {
                is.push(format!("undefined{}", rng.below(3))); // undefined supertype
                continue;
            }
            let j = rng.below(names.len());
            if depth[j] + 1 > max_depth_window {
                continue; // keep the taxonomy shallow: all_supertypes_of re-expands shared ancestors
            }
            if !is.contains(&names[j]) {
                is.push(names[j].clone());
                dmax = dmax.max(depth[j] + 1);
            }
        }
        if rng.chance(1, 10) {
            is.push(is.first().cloned().unwrap_or("marker".into())); // duplicate entry
        }
        rows.push(mk(&name, is, if rng.chance(1, 6) { Some(("mandatory", Value::Marker)) } else { None }));
        names.push(name);
        depth.push(dmax);
    }
    // conjuncts of defined parts
    for _ in 0..rng.below(5) {
        let a = names[rng.below(names.len())].clone();
        let b = names[rng.below(names.len())].clone();
        let mut parts = vec![a, b];
        // mostly 2-3 parts, now and then up to 7
        let extra = if rng.chance(1, 4) { 1 + rng.below(5) } else { rng.below(2) };
        for _ in 0..extra {
            let p = names[rng.below(names.len())].clone();
            if !p.contains('-') {
                parts.push(p);
            }
        }
        // now and then a conjunct that repeats one part ("x-x")
        if rng.chance(1, 6) {
            let p0 = parts[0].clone();
            parts = vec![p0.clone(), p0];
        }
        let cname = parts.join("-");
        if !names.contains(&cname) {
            let sup = names[rng.below(names.len())].clone();
            rows.push(mk(&cname, vec![sup], None));
            names.push(cname);
        }
    }
    // feature keys
    for i in 0..rng.below(3) {
        let fname = format!("lib:f{i}");
        rows.push(mk(&fname, vec!["val".into()], None));
        names.push(fname);
    }
    // a def whose name is the empty symbol (nothing forbids it; it must behave like any other name)
    if rng.chance(1, 8) {
        let sup = names[rng.below(names.len())].clone();
        rows.push(mk("", vec![sup], None));
        names.push(String::new());
    }
    // rows without a def, and a non-list 'is'
    if rng.chance(1, 3) {
        let mut d = Dict::new();
        d.insert("is".into(), Value::make_list(vec![sym("marker")]));
        rows.push(d);
    }
    if rng.chance(1, 4) {
        let mut d = Dict::new();
        d.insert("def".into(), sym("odd"));
        d.insert("is".into(), sym("marker"));
        rows.push(d);
        names.push("odd".into());
    }
    // associations (stored and computed from a reciprocal), child prototypes and flattened tags
    if rng.coin() {
        let plain: Vec<String> = names.clone();
        let pick_syms = |rng: &mut Rng| -> Value {
            Value::make_list((0..1 + rng.below(3)).map(|_| if rng.chance(1, 8) { sym("undefined1") } else { sym(&plain[rng.below(plain.len())]) }).collect())
        };
        for row in rows.iter_mut() {
            if rng.chance(1, 3) {
                row.insert("tagOn".into(), pick_syms(rng));
            }
            if rng.chance(1, 4) {
                row.insert("relA".into(), pick_syms(rng));
            }
            if rng.chance(1, 6) {
                let kids = if rng.coin() {
                    let a = &plain[rng.below(plain.len())];
                    let b = &plain[rng.below(plain.len())];
                    let (a, b) = (a.replace(['-', ':'], "_"), b.replace(['-', ':'], "_"));
                    Value::make_str(&format!("{a} {b}\n// a comment\n\n  {b} dis:\"x\"\n{a} {b}\nnot zinc {{"))
                } else {
                    let mut c = Dict::new();
                    c.insert(plain[rng.below(plain.len())].replace(['-', ':'], "_"), Value::Marker);
                    Value::make_list(vec![Value::make_dict(c.clone()), Value::make_number(1.0), Value::make_dict(c)])
                };
                row.insert("children".into(), kids);
                if rng.chance(2, 3) {
                    row.insert("childrenFlatten".into(), pick_syms(rng));
                }
            }
        }
        rows.push(mk("association", vec!["marker".into()], None));
        rows.push(mk("is", vec!["association".into()], None));
        rows.push(mk("tagOn", vec!["association".into()], None));
        let mut tags = mk("tags", vec!["association".into()], Some(("computedFromReciprocal", Value::Marker)));
        tags.insert("reciprocalOf".into(), sym("tagOn"));
        rows.push(tags);
        // relA is sometimes not an association at all; relB's reciprocal is sometimes undefined or absent
        rows.push(mk("relA", vec![if rng.chance(1, 5) { "marker".into() } else { "association".into() }], None));
        let mut rel_b = mk("relB", vec!["association".into()], Some(("computedFromReciprocal", Value::Marker)));
        match rng.below(5) {
            0 => {}
            1 => {
                rel_b.insert("reciprocalOf".into(), sym("undefined2"));
            }
            _ => {
                rel_b.insert("reciprocalOf".into(), sym("relA"));
            }
        }
        rows.push(rel_b);
        for n in ["association", "is", "tagOn", "tags", "relA", "relB"] {
            names.push(n.into());
        }
    }
    rng.shuffle(&mut rows);
    (Grid::make_from_dicts(rows), names)
}

fn random_record(rng: &mut Rng, names: &[String]) -> Dict {
    let mut d = Dict::new();
    // records of one namespace often share an id (the same entity seen again with other tags)
    if rng.chance(1, 3) {
        d.insert("id".into(), Value::make_ref_with_dis(*rng.pick::<&str>(&["r1", "r2"]), "Dis"));
    }
    // exactly one marker tag (the part of a conjunct that repeats it), plus non-marker company
    if rng.chance(1, 8) {
        let n = names[rng.below(names.len())].clone();
        for p in n.split('-') {
            d.insert(p.to_string(), Value::Marker);
        }
        d.insert("zzText".into(), Value::make_str("x"));
        return d;
    }
    for _ in 0..rng.below(7) {
        let name = if rng.chance(1, 6) { format!("zz{}", rng.below(3)) } else { names[rng.below(names.len())].clone() };
        // conjunct names are not tag names; use their parts (so conjuncts can be reflected)
        if name.contains('-') {
            for p in name.split('-') {
                d.insert(p.to_string(), if rng.chance(4, 5) { Value::Marker } else { Value::make_str("x") });
            }
        } else {
            d.insert(name, if rng.chance(3, 4) { Value::Marker } else { Value::make_number(1.0) });
        }
    }
    d
}

pub fn defs_grid() -> Option<Grid> {
    let text = std::fs::read_to_string("/repo/tests/defs/defs.zinc").ok()?;
    match libhaystack::encoding::zinc::decode::from_str(&text) {
        Ok(Value::Grid(g)) => Some(g),
        _ => None,
    }
}

pub fn run(ctx: &mut Ctx) {
    // ---- the real Project Haystack defs: exhaustive over symbols and ordered pairs ------------------
    if let Some(grid) = defs_grid() {
        let g = graph_of(&grid);
        let defs = defmap_of(&grid);
        let with_children: Vec<String> = defs.iter().filter(|(_, d)| d.contains_key("children")).map(|(n, _)| n.clone()).collect();
        let ns = leak_ns(grid).get();
        let syms: Vec<String> = g.is.keys().cloned().collect();
        ctx.note("real_defs_symbols", json!(syms.len()));
        let inh: std::collections::BTreeMap<&String, Set> = syms.iter().map(|s| (s, g.inheritance(s))).collect();
        for (i, s) in syms.iter().enumerate() {
            if (i as u64) % ctx.nshards != ctx.shard {
                continue;
            }
            if !ctx.begin("real-symbol", i as u64) {
                continue;
            }
            ctx.eval("real:symbol", crate::prng::hash_str(s), true);
            match catch(|| {
                let mut ms = check_symbol(ns, &g, s);
                ms.extend(check_assoc(ns, &defs, &g, s));
                ms
            }) {
                Ok(ms) => report(ctx, "real", ms, json!({"symbol": s})),
                Err(p) => ctx.violation(&format!("defs:real:{}", panic_sig(&p)), &p.msg, json!({"symbol": s})),
            }
            // all ordered pairs (s, t)
            let r = catch(|| {
                let mut bad = Vec::new();
                let a = Symbol::from(s.as_str());
                for t in &syms {
                    let got = ns.fits(&a, &Symbol::from(t.as_str()));
                    let want = inh[s].contains(t);
                    if got != want {
                        bad.push(format!("fits({s},{t}) = {got}, graph says {want}"));
                    }
                }
                // undefined symbols on either side
                for u in ["zzUndefined", ""] {
                    if ns.fits(&a, &Symbol::from(u)) || ns.fits(&Symbol::from(u), &a) {
                        bad.push(format!("fits with undefined symbol {u:?} is true"));
                    }
                }
                bad
            });
            ctx.evaluations += syms.len() as u64;
            ctx.note_add("real_fits_pairs", syms.len() as u64);
            match r {
                Ok(bad) => {
                    for b in bad.into_iter().take(3) {
                        ctx.violation("defs:real:fits", &b, json!({"symbol": s}));
                    }
                }
                Err(p) => ctx.violation(&format!("defs:real:fits:{}", panic_sig(&p)), &p.msg, json!({"symbol": s})),
            }
            // reflection of this def's own tag set (its name, or the conjunct's parts) and of random tag subsets
            let mut rng = ctx.case_rng("real-symbol", i as u64);
            for k in 0..4 {
                let mut rec = Dict::new();
                if k == 0 {
                    for p in s.split('-') {
                        rec.insert(p.to_string(), Value::Marker);
                    }
                } else {
                    rec = random_record(&mut rng, &syms);
                }
                let probes: Vec<String> = (0..6).map(|_| syms[rng.below(syms.len())].clone()).chain(inh[s].iter().take(3).cloned()).collect();
                ctx.eval("real:reflect", crate::prng::hash_str(&format!("{:?}", rec.keys().collect::<Vec<_>>())), !rec.is_empty());
                // every other record also carries a tag whose def has child prototypes (and sometimes a Null tag)
                if k % 2 == 1 && !with_children.is_empty() {
                    rec.insert(with_children[rng.below(with_children.len())].clone(), Value::Marker);
                    if rng.coin() {
                        rec.insert(syms[rng.below(syms.len())].replace(['-', ':'], "_"), Value::Null);
                    }
                    ctx.stratum("real:protos-parent-with-children");
                }
                match catch(|| {
                    let mut ms = check_reflect(ns, &g, &rec, &probes);
                    ms.extend(check_protos(ns, &defs, &g, &rec));
                    ms
                }) {
                    Ok(ms) => report(ctx, "real", ms, json!({"record_tags": rec.keys().collect::<Vec<_>>()})),
                    Err(p) => ctx.violation(&format!("defs:real:reflect:{}", panic_sig(&p)), &p.msg, json!({})),
                }
            }
        }
        if ctx.shard == 0 {
            ctx.sample("real-defs", json!({"symbols": syms.len(), "example": syms.iter().take(8).collect::<Vec<_>>(), "inheritance(ahu)": g.inheritance("ahu")}));
        }
    } else {
        ctx.violation("HARNESS:defs-unavailable", "cannot read/parse /repo/tests/defs/defs.zinc", json!({}));
    }
    // ---- a very deep single-inheritance chain, queried from the deep end on a thread with the default 2 MiB stack ------
    if ctx.shard == 2 % ctx.nshards {
        crate::util::on_thread_stack(ctx, |ctx: &mut Ctx| {
            for (k, depth) in [1_000usize, 5_000, 20_000].iter().enumerate() {
                if !ctx.begin("deep-taxonomy", k as u64) {
                    continue;
                }
                let mut rows: Vec<Dict> = Vec::new();
                for i in 0..*depth {
                    let mut d = Dict::new();
                    d.insert("def".into(), sym(&format!("c{i}")));
                    if i > 0 {
                        d.insert("is".into(), Value::make_list(vec![sym(&format!("c{}", i - 1))]));
                    }
                    rows.push(d);
                }
                let nsh = leak_ns(Grid::make_from_dicts(rows));
                let ns = nsh.get();
                let last = format!("c{}", depth - 1);
                let r = catch(|| {
                    let mut bad = Vec::new();
                    let inh = ns.inheritance(&Symbol::from(last.as_str())).len();
                    if inh != *depth {
                        bad.push(format!("inheritance({last}) has {inh} entries, the chain has {depth}"));
                    }
                    let sup = ns.all_supertypes_of(&Symbol::from(last.as_str())).len();
                    if sup != depth - 1 {
                        bad.push(format!("all_supertypes_of({last}) has {sup} entries, expected {}", depth - 1));
                    }
                    if !ns.fits(&Symbol::from(last.as_str()), &Symbol::from("c0")) || ns.fits(&Symbol::from("c0"), &Symbol::from(last.as_str())) {
                        bad.push(format!("fits({last}, c0) / fits(c0, {last}) wrong"));
                    }
                    let mut rec = Dict::new();
                    rec.insert(last.clone(), Value::Marker);
                    let refl = ns.reflect(&rec);
                    if refl.defs.len() != *depth || !refl.fits(&Symbol::from("c0")) {
                        bad.push(format!("reflect({{{last}}}) has {} defs, expected {depth}", refl.defs.len()));
                    }
                    bad
                });
                ctx.eval("deep-taxonomy", *depth as u64, true);
                ctx.note_max("max_taxonomy_depth", *depth as f64);
                match r {
                    Ok(bad) => {
                        for b in bad {
                            ctx.violation("defs:deep:wrong-answer", &b, json!({"depth": depth}));
                        }
                    }
                    Err(p) => ctx.violation(&format!("defs:deep:{}", panic_sig(&p)), &p.msg, json!({"depth": depth})),
                }
                unsafe { reclaim_ns(nsh) };
            }
        });
    }
    // ---- random acyclic taxonomies ----------------------------------------------------------------
    let n = ctx.n(300, 8_000);
    for i in 0..n {
        if !ctx.begin("random-taxonomy", i) {
            continue;
        }
        let mut rng = ctx.case_rng("random-taxonomy", i);
        let (grid, names) = random_taxonomy(&mut rng);
        let g = graph_of(&grid);
        let defs = defmap_of(&grid);
        if defs.contains_key("association") {
            ctx.stratum("random:taxonomy-with-associations");
        }
        let fp = crate::prng::hash_str(&format!("{:?}", g.is));
        let grid_text = if ctx.wants_sample("random-taxonomy") { Some(format!("{:?}", g.is)) } else { None };
        let nsh = leak_ns(grid);
        let ns = nsh.get();
        let mut syms: Vec<String> = names.clone();
        syms.push("undefined0".into());
        syms.push("nowhere".into());
        let r = catch(|| {
            let mut ms = Vec::new();
            for s in &syms {
                ms.extend(check_symbol(ns, &g, s));
                ms.extend(check_assoc(ns, &defs, &g, s));
            }
            for s in &syms {
                for t in &syms {
                    let got = ns.fits(&Symbol::from(s.as_str()), &Symbol::from(t.as_str()));
                    if got != g.fits(s, t) {
                        ms.push(Mismatch { query: "fits".into(), detail: format!("fits({s},{t}) = {got}, graph says {}", g.fits(s, t)) });
                    }
                }
            }
            for _ in 0..6 {
                let rec = random_record(&mut rng, &names);
                let probes: Vec<String> = (0..5).map(|_| syms[rng.below(syms.len())].clone()).collect();
                ms.extend(check_reflect(ns, &g, &rec, &probes));
                ms.extend(check_protos(ns, &defs, &g, &rec));
            }
            // the core type table is a lookup by name
            let core = ns.core_type_defs();
            for (name, d) in [("marker", core.marker), ("na", core.na), ("bool", core.bool), ("number", core.number), ("str", core.str), ("dict", core.dict), ("grid", core.grid), ("ref", core.reference)] {
                if g.defined(name) != !d.is_empty() || (g.defined(name) && d.def_name() != name) {
                    ms.push(Mismatch { query: "core_type_defs".into(), detail: format!("core_type_defs().{name} is not the def named {name}") });
                }
            }
            ms
        });
        ctx.eval("random-taxonomy", fp, true);
        ctx.evaluations += (syms.len() * syms.len()) as u64;
        match r {
            Ok(ms) => report(ctx, "random", ms, json!({"taxonomy": truncate(&format!("{:?}", g.is), 1500)})),
            Err(p) => ctx.violation(&format!("defs:random:{}", panic_sig(&p)), &p.msg, json!({"taxonomy": truncate(&format!("{:?}", g.is), 1500)})),
        }
        if let Some(t) = grid_text {
            ctx.sample("random-taxonomy", json!(truncate(&t, 600)));
        }
        unsafe { reclaim_ns(nsh) };
    }
}
