//! Stratified generators of well-formed model values (the well-formedness clause of C01).

use crate::bridge::{all_units, mdatetime, unambiguous_zones};
use crate::model::*;
use crate::prng::Rng;

pub const ID_START: &str = "abcdefghijklmnopqrstuvwxyz";
pub const ID_REST: &str = "abcdefghijklmnopqrstuvwxyzABCDEFGHIJKLMNOPQRSTUVWXYZ0123456789_";
pub const REF_CHARS: &str = "abcdefghijklmnopqrstuvwxyzABCDEFGHIJKLMNOPQRSTUVWXYZ0123456789_:-.~";
pub const UPPER: &str = "ABCDEFGHIJKLMNOPQRSTUVWXYZ";

fn pick_char(rng: &mut Rng, set: &str) -> char {
    let b = set.as_bytes();
    b[rng.below(b.len())] as char
}

pub fn gen_id(rng: &mut Rng) -> String {
    let mut s = String::new();
    s.push(pick_char(rng, ID_START));
    let n = match rng.below(10) {
        0 => 0,
        1..=6 => rng.below(6),
        7 | 8 => rng.below(14),
        _ => rng.below(40),
    };
    for _ in 0..n {
        s.push(pick_char(rng, ID_REST));
    }
    s
}

/// A small pool of short ids makes key collisions (and so interesting dict shapes) likely.
pub fn gen_key(rng: &mut Rng) -> String {
    if rng.chance(1, 2) {
        const POOL: [&str; 16] = [
            "a", "b", "c", "id", "dis", "ver", "val", "unit", "site", "point", "x1", "aB_9", "name", "meta", "rows", "cols",
        ];
        rng.pick(&POOL).to_string()
    } else {
        gen_id(rng)
    }
}

pub fn gen_ref_id(rng: &mut Rng) -> String {
    let n = 1 + match rng.below(8) {
        0 => 0,
        1..=5 => rng.below(10),
        _ => rng.below(40),
    };
    (0..n).map(|_| pick_char(rng, REF_CHARS)).collect()
}

pub fn gen_symbol_body(rng: &mut Rng) -> String {
    let mut s = String::new();
    s.push(pick_char(rng, ID_START));
    let n = match rng.below(8) {
        0 => 0,
        1..=5 => rng.below(10),
        _ => rng.below(30),
    };
    for _ in 0..n {
        s.push(pick_char(rng, REF_CHARS));
    }
    s
}

pub fn gen_xstr_type(rng: &mut Rng) -> String {
    loop {
        let mut s = String::new();
        s.push(pick_char(rng, UPPER));
        let n = match rng.below(6) {
            0 => 0,
            _ => rng.below(10),
        };
        for _ in 0..n {
            s.push(pick_char(rng, ID_REST));
        }
        // "C(" is the Coord literal in the grammar: the type name C is outside the model (stated bound)
        if s != "C" {
            return s;
        }
    }
}

#[derive(Clone, Copy, PartialEq, Eq, Debug)]
pub enum CharClass {
    Ascii,
    Control,
    Special,
    Latin,
    Bmp,
    Astral,
    Space,
}

pub fn gen_char(rng: &mut Rng, class: CharClass) -> char {
    match class {
        CharClass::Ascii => (0x21 + rng.below(0x7e - 0x21 + 1) as u8) as char,
        CharClass::Space => ' ',
        CharClass::Control => {
            const C: [char; 12] = ['\0', '\u{1}', '\u{7}', '\u{8}', '\t', '\n', '\u{b}', '\u{c}', '\r', '\u{1b}', '\u{1f}', '\u{7f}'];
            *rng.pick(&C)
        }
        CharClass::Special => *rng.pick(&['"', '\\', '$', '`', '\'', '{', '}', '<', '>', '(', ')', '[', ']', ',', ':', '@', '^', '/', 'u', 'n', '&', '=', ';', '#', '?']),
        CharClass::Latin => char::from_u32(0x80 + rng.below(0x800 - 0x80) as u32).unwrap(),
        CharClass::Bmp => loop {
            // one in eight: the edges of the BMP (around the surrogate gap, the replacement character, the last code points)
            if rng.chance(1, 8) {
                return *rng.pick(&['\u{d7ff}', '\u{e000}', '\u{fffc}', '\u{fffd}', '\u{fffe}', '\u{ffff}', '\u{feff}', '\u{2028}', '\u{2029}', '\u{800}']);
            }
            let c = 0x800 + rng.below(0x10000 - 0x800) as u32;
            if let Some(ch) = char::from_u32(c) {
                return ch;
            }
        },
        CharClass::Astral => loop {
            let c = match rng.below(3) {
                0 => 0x1F600 + rng.below(80) as u32,
                1 => 0x10000 + rng.below(0x10000) as u32,
                _ => 0x10000 + rng.below(0x100000) as u32,
            };
            if let Some(ch) = char::from_u32(c) {
                return ch;
            }
        },
    }
}

/// Arbitrary Unicode string: empty, ASCII, controls incl. NUL, quotes/backslash/'$'/backtick,
/// BMP, astral, occasionally long.
pub fn gen_string(rng: &mut Rng) -> String {
    gen_string_with(rng, true)
}

/// Strings that look like something else: legacy Haystack-3 JSON type prefixes ("s:", "n:", "r:" ...), Zinc / JSON
/// literals and keywords, escape sequences written out as text. A codec must treat them as plain text.
pub const LOOKALIKES: [&str; 44] = [
    "s:", "s:hello", "n:12", "n:12 kW", "m:", "r:abc Dis", "u:http://x", "d:2020-01-01", "h:12:00:00", "t:2020-01-01T00:00:00Z UTC", "c:1,2", "x:T:v", "b:", "z:", "-:", "y:sym",
    "NaN", "INF", "-INF", "M", "N", "NA", "R", "T", "F", "null", "true", "false", "2020-01-01", "12:00:00", "@ref", "^sym", "`uri`", "C(1,2)", "X(\"v\")", "ver:\"3.0\"", "<<", ">>",
    "\\u0041", "\\n", "{\"_kind\":\"marker\"}", "_kind", "1e5", "5kW",
];

pub fn gen_string_with(rng: &mut Rng, controls: bool) -> String {
    if rng.chance(1, 14) {
        let mut s = rng.pick(&LOOKALIKES).to_string();
        if rng.chance(1, 3) {
            s.push_str(&gen_id(rng));
        }
        // a lookalike inside a lookalike: whatever a decoder strips or unescapes once must not be stripped twice
        if rng.chance(1, 4) {
            s = format!("{}{}", rng.pick(&LOOKALIKES), s);
        }
        return s;
    }
    let mut len = match rng.below(20) {
        0 => 0,
        1..=3 => 1,
        4..=14 => 1 + rng.below(12),
        15..=18 => rng.below(60),
        _ => 200 + rng.below(5000),
    };
    // now and then exactly a power of two or its neighbours (buffer and chunk boundaries are not where random lengths land)
    if rng.chance(1, 30) {
        let p = 1usize << (3 + rng.below(11)); // 8 .. 8192
        len = p + rng.below(3) - 1;
    }
    // choose a subset of classes for this string
    let mut classes = vec![CharClass::Ascii];
    for c in [CharClass::Special, CharClass::Latin, CharClass::Bmp, CharClass::Astral, CharClass::Space] {
        if rng.chance(1, 3) {
            classes.push(c);
        }
    }
    if controls && rng.chance(1, 3) {
        classes.push(CharClass::Control);
    }
    if rng.chance(1, 6) {
        classes.remove(0);
        if classes.is_empty() {
            classes.push(CharClass::Special);
        }
    }
    let mut s = String::new();
    for _ in 0..len {
        let c = *rng.pick(&classes);
        let ch = gen_char(rng, c);
        if !controls && (ch < ' ' || ('\u{7f}'..='\u{9f}').contains(&ch)) {
            continue;
        }
        s.push(ch);
    }
    s
}

pub const F64_SPECIALS: [f64; 40] = [
    0.0,
    -0.0,
    1.0,
    -1.0,
    0.1,
    -0.1,
    0.5,
    1.5,
    -40.0,
    100.0,
    1e-7,
    1e21,
    -1e21,
    1e22,
    1.7976931348623157e308,
    -1.7976931348623157e308,
    5e-324,
    -5e-324,
    2.2250738585072014e-308,
    2.225073858507201e-308,
    9007199254740992.0,
    9007199254740993.0,
    9007199254740991.0,
    -9007199254740992.0,
    9223372036854775807.0,
    9223372036854775808.0,
    -9223372036854775808.0,
    9223372036854777856.0,
    18446744073709551615.0,
    4294967296.0,
    0.30000000000000004,
    123456789.12345679,
    1e15,
    1e16,
    1e17,
    0.001,
    1e-5,
    3.141592653589793,
    2.718281828459045e-10,
    6.02214076e23,
];

pub fn gen_finite_f64(rng: &mut Rng) -> f64 {
    match rng.below(10) {
        0 | 1 => F64_SPECIALS[rng.below(F64_SPECIALS.len())],
        2 | 3 => rng.range(-1000, 1000) as f64,
        4 => (rng.range(-100000, 100000) as f64) / 100.0,
        5 => {
            // random bit pattern, finite
            loop {
                let v = f64::from_bits(rng.next_u64());
                if v.is_finite() {
                    return v;
                }
            }
        }
        6 => {
            // subnormal
            let v = f64::from_bits(rng.next_u64() & 0x000f_ffff_ffff_ffff);
            if rng.coin() {
                v
            } else {
                -v
            }
        }
        7 => {
            // integers around 2^53 .. 2^64
            let e = 52 + rng.below(13) as i32;
            let base = 2f64.powi(e);
            let v = base + (rng.range(-4, 4) as f64) * (base / 2f64.powi(52)).max(1.0);
            if rng.coin() {
                v
            } else {
                -v
            }
        }
        8 => {
            // 17-significant-digit fractions of moderate magnitude
            let v = rng.unit_f64() * 10f64.powi(rng.range(-12, 22) as i32);
            if rng.coin() {
                v
            } else {
                -v
            }
        }
        _ => rng.unit_f64() * 200.0 - 100.0,
    }
}

pub fn gen_number(rng: &mut Rng) -> MVal {
    match rng.below(24) {
        0 => MVal::Num(F(f64::NAN), None),
        1 => MVal::Num(F(f64::INFINITY), None),
        2 => MVal::Num(F(f64::NEG_INFINITY), None),
        _ => {
            let v = gen_finite_f64(rng);
            let unit = if rng.chance(2, 5) {
                let us = all_units();
                Some(us[rng.below(us.len())].name().to_string())
            } else {
                None
            };
            MVal::Num(F(v), unit)
        }
    }
}

pub fn days_in_month(y: i32, m: u32) -> u32 {
    match m {
        1 | 3 | 5 | 7 | 8 | 10 | 12 => 31,
        4 | 6 | 9 | 11 => 30,
        _ => {
            if (y % 4 == 0 && y % 100 != 0) || y % 400 == 0 {
                29
            } else {
                28
            }
        }
    }
}

pub fn gen_date(rng: &mut Rng) -> MVal {
    let y = match rng.below(8) {
        0 => 0,
        1 => 9999,
        2 => rng.range(0, 9999) as i32,
        3 => rng.range(1, 999) as i32,
        _ => rng.range(1970, 2060) as i32,
    };
    let m = rng.range(1, 12) as u32;
    let d = if rng.chance(1, 5) { days_in_month(y, m) } else { rng.range(1, days_in_month(y, m) as i64) as u32 };
    MVal::Date(y, m, d)
}

/// nanoseconds with exactly `digits` significant fraction digits at most (0..=9)
pub fn gen_nanos(rng: &mut Rng) -> u32 {
    let digits = rng.below(10) as u32;
    if digits == 0 {
        return 0;
    }
    let scale = 10u32.pow(9 - digits);
    let max = 10u32.pow(digits);
    (rng.below(max as usize) as u32) * scale
}

pub fn gen_time(rng: &mut Rng) -> MVal {
    let (h, m, s) = match rng.below(6) {
        0 => (0, 0, 0),
        1 => (23, 59, 59),
        _ => (rng.below(24) as u32, rng.below(60) as u32, rng.below(60) as u32),
    };
    // one in thirty: a leap second, which chrono holds as second 59 with a nanosecond field of 1e9 or more (hh:mm:60.f)
    if rng.chance(1, 30) {
        return MVal::Time(h, m, 59, 1_000_000_000 + gen_nanos(rng));
    }
    MVal::Time(h, m, s, gen_nanos(rng))
}

pub const T1980: i64 = 315532800;
pub const T2060: i64 = 2840140800;

/// An instant within about an hour of one of the zone's UTC-offset changes in a random year (the repeated / skipped
/// local hour and its surroundings), or None if the zone's offset does not change that year.
pub fn near_transition(rng: &mut Rng, tz: chrono_tz::Tz) -> Option<i64> {
    use chrono::{Offset, TimeZone};
    let off = |t: i64| tz.timestamp_opt(t, 0).unwrap().offset().fix().local_minus_utc();
    let year0 = T1980 + rng.range(0, 79) * 31_556_952;
    let mut t = year0;
    let mut o = off(t);
    for _ in 0..366 {
        let n = t + 86_400;
        if off(n) != o {
            let (mut lo, mut hi) = (t, n);
            while hi - lo > 1 {
                let mid = lo + (hi - lo) / 2;
                if off(mid) == o {
                    lo = mid;
                } else {
                    hi = mid;
                }
            }
            // keep going to the year's second change half of the time
            if rng.coin() {
                return Some((hi + rng.range(-3_700, 3_700)).clamp(T1980, T2060 - 1));
            }
            o = off(n);
        }
        t = n;
    }
    None
}

pub fn gen_datetime(rng: &mut Rng) -> MVal {
    let mut secs = rng.range(T1980, T2060 - 1);
    let nanos = gen_nanos(rng);
    let tz = if rng.chance(1, 4) {
        chrono_tz::UTC
    } else {
        let zs = unambiguous_zones();
        zs[rng.below(zs.len())]
    };
    // one in six: around a daylight-saving change of that zone (repeated and skipped local hours)
    if rng.chance(1, 6) {
        if let Some(t) = near_transition(rng, tz) {
            secs = t;
        }
    }
    // one in forty: a leap second (the last second of a UTC minute, nanosecond field raised by 1e9)
    if rng.chance(1, 40) {
        let s59 = secs - secs.rem_euclid(60) + 59;
        if s59 < T2060 {
            return MVal::DateTime(mdatetime(tz, s59, nanos + 1_000_000_000));
        }
    }
    MVal::DateTime(mdatetime(tz, secs, nanos))
}

pub fn gen_coord(rng: &mut Rng) -> MVal {
    let lat = match rng.below(6) {
        0 => 0.0,
        1 => -90.0,
        2 => 90.0,
        3 => -0.0,
        _ => rng.unit_f64() * 180.0 - 90.0,
    };
    let lng = match rng.below(6) {
        0 => 0.0,
        1 => -180.0,
        2 => 180.0,
        3 => 1e-7,
        _ => rng.unit_f64() * 360.0 - 180.0,
    };
    MVal::Coord(F(lat), F(lng))
}

pub fn gen_scalar_of_kind(rng: &mut Rng, kind: usize) -> MVal {
    match kind {
        0 => MVal::Null,
        1 => MVal::Remove,
        2 => MVal::Marker,
        3 => MVal::Na,
        4 => MVal::Bool(rng.coin()),
        5 => gen_number(rng),
        6 => MVal::Str(gen_string(rng)),
        7 => MVal::Uri(gen_string_with(rng, false)),
        8 => {
            let id = gen_ref_id(rng);
            // (a display name that merely repeats the id is still a display name)
            let dis = match rng.below(10) {
                0 => Some(id.clone()),
                1..=3 => Some(gen_string(rng)),
                _ => None,
            };
            MVal::Ref(id, dis)
        }
        9 => MVal::Symbol(gen_symbol_body(rng)),
        10 => gen_date(rng),
        11 => gen_time(rng),
        12 => gen_datetime(rng),
        13 => gen_coord(rng),
        14 => MVal::XStr(gen_xstr_type(rng), gen_string(rng)),
        _ => unreachable!(),
    }
}

pub fn gen_scalar(rng: &mut Rng) -> MVal {
    let k = rng.below(15);
    gen_scalar_of_kind(rng, k)
}

pub fn gen_dict(rng: &mut Rng, depth: usize, budget: &mut i64) -> MDict {
    let n = match rng.below(8) {
        0 => 0,
        1 | 2 => 1,
        _ => 1 + rng.below(5),
    };
    let mut d = MDict::new();
    for _ in 0..n {
        let k = gen_key(rng);
        let v = gen_value_b(rng, depth, budget);
        d.insert(k, v);
    }
    d
}

pub fn gen_grid(rng: &mut Rng, depth: usize, budget: &mut i64) -> MGrid {
    let ncols = match rng.below(6) {
        0 => 1,
        _ => 1 + rng.below(5),
    };
    let mut names: Vec<String> = Vec::new();
    while names.len() < ncols {
        let k = gen_key(rng);
        if !names.contains(&k) {
            names.push(k);
        }
    }
    let mut meta = if rng.chance(1, 2) { gen_dict(rng, depth, budget) } else { MDict::new() };
    // 'ver' is the reserved version tag of grid meta in both encodings, not a user tag (stated bound)
    meta.remove("ver");
    let cols: Vec<MCol> = names
        .iter()
        .map(|n| MCol { name: n.clone(), meta: if rng.chance(1, 3) { gen_dict(rng, depth, budget) } else { MDict::new() } })
        .collect();
    let nrows = match rng.below(6) {
        0 => 0,
        1 => 1,
        _ => rng.below(5),
    };
    let mut rows = Vec::new();
    for _ in 0..nrows {
        let mut r = MDict::new();
        for n in &names {
            match rng.below(6) {
                0 => {} // missing cell
                1 => {
                    r.insert(n.clone(), MVal::Null);
                }
                _ => {
                    r.insert(n.clone(), gen_value_b(rng, depth, budget));
                }
            }
        }
        rows.push(r);
    }
    MGrid { meta, cols, rows }
}

fn gen_value_b(rng: &mut Rng, depth: usize, budget: &mut i64) -> MVal {
    *budget -= 1;
    if depth == 0 || *budget <= 0 || rng.chance(3, 5) {
        return gen_scalar(rng);
    }
    match rng.below(3) {
        0 => {
            let n = match rng.below(6) {
                0 => 0,
                _ => rng.below(5),
            };
            MVal::List((0..n).map(|_| gen_value_b(rng, depth - 1, budget)).collect())
        }
        1 => MVal::Dict(gen_dict(rng, depth - 1, budget)),
        _ => MVal::Grid(Box::new(gen_grid(rng, depth - 1, budget))),
    }
}

/// A well-formed value of any kind, nested to at most `max_depth`.
pub fn gen_value(rng: &mut Rng, max_depth: usize) -> MVal {
    let mut budget: i64 = 60;
    // force collections at the top half of the time so nesting is actually exercised
    if max_depth > 0 && rng.chance(1, 2) {
        return match rng.below(3) {
            0 => MVal::List((0..rng.below(5)).map(|_| gen_value_b(rng, max_depth - 1, &mut budget)).collect()),
            1 => MVal::Dict(gen_dict(rng, max_depth - 1, &mut budget)),
            _ => MVal::Grid(Box::new(gen_grid(rng, max_depth - 1, &mut budget))),
        };
    }
    gen_value_b(rng, max_depth, &mut budget)
}

/// Relax a well-formed value into one that the data model does not allow but a lenient decoder may accept:
/// non-finite numbers with a unit, arbitrary Ref / Symbol bodies, arbitrary XStr types and dict keys, Uris with
/// control characters, duplicate column names. Used to widen the set of *accepted texts*, never as an expected value.
pub fn relax(m: &MVal, rng: &mut Rng) -> MVal {
    let odd = |rng: &mut Rng| -> String {
        match rng.below(6) {
            0 => String::new(),
            1 => "A b".into(),
            2 => "é".into(),
            3 => "9x".into(),
            _ => gen_string(rng),
        }
    };
    let rd = |d: &MDict, rng: &mut Rng| -> MDict {
        d.iter()
            .map(|(k, v)| {
                let k = if rng.chance(1, 8) { odd(rng) } else { k.clone() };
                (k, relax(v, rng))
            })
            .collect()
    };
    match m {
        MVal::Num(f, u) => {
            if rng.chance(1, 4) {
                let us = all_units();
                let unit = u.clone().or_else(|| Some(us[rng.below(us.len())].name().to_string()));
                let v = *rng.pick(&[f64::INFINITY, f64::NEG_INFINITY, f64::NAN]);
                MVal::Num(F(v), unit)
            } else {
                MVal::Num(*f, u.clone())
            }
        }
        MVal::Ref(id, dis) => MVal::Ref(if rng.chance(1, 3) { odd(rng) } else { id.clone() }, dis.clone()),
        MVal::Symbol(s) => MVal::Symbol(if rng.chance(1, 3) { odd(rng) } else { s.clone() }),
        MVal::XStr(t, v) => MVal::XStr(if rng.chance(1, 3) { odd(rng) } else { t.clone() }, v.clone()),
        MVal::Uri(s) => MVal::Uri(if rng.chance(1, 3) { format!("{s}\u{1}\n") } else { s.clone() }),
        MVal::List(l) => MVal::List(l.iter().map(|v| relax(v, rng)).collect()),
        MVal::Dict(d) => MVal::Dict(rd(d, rng)),
        MVal::Grid(g) => {
            let mut n = MGrid { meta: rd(&g.meta, rng), cols: g.cols.iter().map(|c| MCol { name: c.name.clone(), meta: rd(&c.meta, rng) }).collect(), rows: g.rows.iter().map(|r| rd(r, rng)).collect() };
            n.meta.remove("ver");
            if n.cols.len() > 1 && rng.chance(1, 6) {
                n.cols[1].name = n.cols[0].name.clone();
            }
            MVal::Grid(Box::new(n))
        }
        other => other.clone(),
    }
}

/// Wide (not deep) values: more than 128 siblings at one level, so a counter that should track nesting depth
/// but tracks the number of values instead is noticed.
pub fn gen_wide(rng: &mut Rng) -> MVal {
    // mostly 130..330 siblings; one in four exactly around a power of two (127/128/129, 255/256/257, 511/512/513)
    let n = if rng.chance(1, 4) { (128usize << rng.below(3)) + rng.below(3) - 1 } else { 130 + rng.below(200) };
    match rng.below(4) {
        0 => MVal::List((0..n).map(|_| gen_scalar(rng)).collect()),
        1 => {
            let mut d = MDict::new();
            for i in 0..n {
                d.insert(format!("k{i}"), if i % 7 == 0 { MVal::List(vec![gen_scalar(rng), MVal::Dict(MDict::new())]) } else { gen_scalar(rng) });
            }
            MVal::Dict(d)
        }
        2 => {
            let cols: Vec<MCol> = (0..3).map(|c| MCol { name: format!("c{c}"), meta: MDict::new() }).collect();
            let rows = (0..n)
                .map(|_| {
                    let mut r = MDict::new();
                    for c in &cols {
                        if !rng.chance(1, 6) {
                            r.insert(c.name.clone(), if rng.chance(1, 8) { MVal::List(vec![gen_scalar(rng)]) } else { gen_scalar(rng) });
                        }
                    }
                    r
                })
                .collect();
            MVal::Grid(Box::new(MGrid { meta: MDict::new(), cols, rows }))
        }
        _ => {
            // many small collections side by side
            MVal::List((0..n).map(|i| match i % 3 {
                0 => MVal::List(vec![gen_scalar(rng)]),
                1 => MVal::Dict([("a".to_string(), gen_scalar(rng))].into_iter().collect()),
                _ => MVal::Grid(Box::new(MGrid { meta: MDict::new(), cols: vec![MCol { name: "a".into(), meta: MDict::new() }], rows: vec![[("a".to_string(), gen_scalar(rng))].into_iter().collect()] })),
            }).collect())
        }
    }
}

/// Names of the strata a value covers (for evidence and the non-triviality rule).
pub fn strata_of(v: &MVal) -> Vec<&'static str> {
    let mut out: Vec<&'static str> = Vec::new();
    let mut push = |s: &'static str| {
        if !out.contains(&s) {
            out.push(s)
        }
    };
    v.walk(&mut |n| {
        push(n.kind_name());
        match n {
            MVal::Num(f, u) => {
                if f.0.is_nan() {
                    push("num:nan")
                } else if f.0.is_infinite() {
                    push("num:inf")
                } else if f.0 == 0.0 && f.0.is_sign_negative() {
                    push("num:neg0")
                } else if f.0 != 0.0 && f.0.abs() < 2.2250738585072014e-308 {
                    push("num:subnormal")
                } else if f.0.abs() >= 9.2e18 && f.0.fract() == 0.0 {
                    push("num:int>=2^63")
                } else if f.0.abs() >= 9007199254740992.0 {
                    push("num:>=2^53")
                } else if f.0.fract() != 0.0 {
                    push("num:fraction")
                }
                if u.is_some() {
                    push("num:unit")
                }
            }
            MVal::Str(s) | MVal::Uri(s) | MVal::XStr(_, s) => {
                for c in string_classes(s) {
                    push(c)
                }
            }
            MVal::Ref(_, Some(d)) => {
                push("ref:dis");
                for c in string_classes(d) {
                    push(c)
                }
            }
            MVal::DateTime(d) => {
                if d.tz != "UTC" {
                    push("dt:zone")
                }
                if d.nanos != 0 {
                    push("dt:fraction")
                }
            }
            MVal::Grid(g) => {
                if !g.meta.is_empty() {
                    push("grid:meta")
                }
                if g.cols.iter().any(|c| !c.meta.is_empty()) {
                    push("grid:colmeta")
                }
                if g.rows.is_empty() {
                    push("grid:zero-rows")
                }
                if g.cols.len() == 1 {
                    push("grid:one-col")
                }
                if g.rows.iter().any(|r| r.len() < g.cols.len()) {
                    push("grid:missing-cell")
                }
                if g.rows.iter().any(|r| r.values().any(|v| *v == MVal::Null)) {
                    push("grid:null-cell")
                }
            }
            _ => {}
        }
    });
    out
}

pub fn string_classes(s: &str) -> Vec<&'static str> {
    let mut out = Vec::new();
    if s.is_empty() {
        out.push("str:empty");
    }
    let mut push = |x: &'static str| {
        if !out.contains(&x) {
            out.push(x)
        }
    };
    for c in s.chars() {
        match c {
            '"' => push("str:quote"),
            '\\' => push("str:backslash"),
            '$' => push("str:dollar"),
            '`' => push("str:backtick"),
            c if c < ' ' => push("str:control"),
            '\u{7f}' => push("str:del"),
            c if (c as u32) < 0x80 => {}
            c if (c as u32) < 0x800 => push("str:latin"),
            c if (c as u32) < 0x10000 => push("str:bmp"),
            _ => push("str:astral"),
        }
    }
    if s.chars().count() > 4096 {
        push("str:long");
    }
    if LOOKALIKES.iter().any(|l| s.starts_with(l)) {
        push("str:lookalike");
    }
    out
}

/// Abstract class of a string for finding signatures (most specific offending class first).
pub fn string_sig_class(s: &str) -> String {
    let c = string_classes(s);
    if c.is_empty() {
        "ascii".to_string()
    } else {
        c.iter().map(|x| &x[4..]).collect::<Vec<_>>().join("+")
    }
}

/// A value nested `depth` containers deep: the container kind of each level is chosen by `kinds` (0 list, 1 dict,
/// 2 grid, 3 a grid-meta tag, 4 a column-meta tag), the innermost value is a small scalar. Used by the deep-chain
/// streams: the decoders accept 127 nested containers (128 is their documented limit).
pub fn deep_chain(rng: &mut Rng, depth: usize, kinds: &[u8]) -> MVal {
    let leaf = rng.below(7);
    deep_chain_with_leaf(rng, depth, kinds, leaf)
}

pub fn deep_chain_with_leaf(rng: &mut Rng, depth: usize, kinds: &[u8], leaf: usize) -> MVal {
    // the innermost value: a scalar, or an empty container (which sits on the same level and contains nothing to parse)
    let mut v = match leaf % 7 {
        0 => MVal::Num(F(1.5), None),
        1 => MVal::Str("x".into()),
        2 => MVal::Marker,
        3 => MVal::Ref("r".into(), Some("d".into())),
        4 => MVal::List(vec![]),
        5 => MVal::Dict(MDict::new()),
        _ => MVal::Grid(Box::new(MGrid { meta: MDict::new(), cols: vec![MCol { name: "a".into(), meta: [("m".to_string(), MVal::Marker)].into_iter().collect() }], rows: vec![] })),
    };
    for level in 0..depth {
        let k = kinds[(level + rng.below(kinds.len())) % kinds.len()];
        let one = |v: MVal| -> MDict {
            let mut d = MDict::new();
            d.insert("a".into(), v);
            d
        };
        v = match k {
            0 => MVal::List(vec![v]),
            1 => MVal::Dict(one(v)),
            2 => MVal::Grid(Box::new(MGrid { meta: MDict::new(), cols: vec![MCol { name: "a".into(), meta: MDict::new() }], rows: vec![one(v)] })),
            3 => MVal::Grid(Box::new(MGrid { meta: one(v), cols: vec![MCol { name: "b".into(), meta: MDict::new() }], rows: vec![] })),
            _ => MVal::Grid(Box::new(MGrid { meta: MDict::new(), cols: vec![MCol { name: "b".into(), meta: one(v) }], rows: vec![] })),
        };
    }
    v
}

/// Lengths at which a fixed-size buffer, chunk or counter boundary could sit: every length up to 1100 and the
/// neighbourhood of 2^11, 2^12, 2^13, 2^16.
pub fn boundary_lengths() -> Vec<usize> {
    let mut v: Vec<usize> = (0..=1100).collect();
    for p in [2048usize, 4096, 8192, 65536] {
        v.extend(p - 7..=p + 7);
    }
    v
}

/// `n` ASCII letters followed by one character that needs special treatment somewhere (an escape, a multi-byte
/// sequence) and one more letter: the special character sits at byte offset n of the string.
pub const BOUNDARY_CHARS: [char; 8] = ['\u{1}', '"', '\\', '$', '\n', '\u{e9}', '\u{20ac}', '\u{1f600}'];
pub fn boundary_value(n: usize, c: char) -> MVal {
    let mut s = "a".repeat(n);
    s.push(c);
    s.push('z');
    let mut items = vec![MVal::Str(s.clone()), MVal::Ref("r".into(), Some(s.clone())), MVal::XStr("Bin".into(), s.clone())];
    if !c.is_control() {
        items.push(MVal::Uri(s.clone()));
    }
    let mut d = MDict::new();
    d.insert("dis".into(), MVal::Str(s));
    items.push(MVal::Dict(d));
    MVal::List(items)
}
