//! C19 — kinds, typed accessors and grid construction are coherent.

use crate::bridge::{observe, observe_dict, to_value_with};
use crate::ctx::{truncate, Ctx};
use crate::gen::{gen_key, gen_string, gen_value};
use crate::model::{MVal, KIND_NAMES};
use crate::prng::Rng;
use crate::util::{catch, panic_sig};
use libhaystack::val::kind::HaystackKind;
use libhaystack::val::*;
use serde_json::json;
use std::collections::{BTreeMap, BTreeSet};

fn predicates(v: &Value) -> [bool; 18] {
    [
        v.is_null(),
        v.is_remove(),
        v.is_marker(),
        v.is_na(),
        v.is_bool(),
        v.is_number(),
        v.is_str(),
        v.is_uri(),
        v.is_ref(),
        v.is_symbol(),
        v.is_date(),
        v.is_time(),
        v.is_datetime(),
        v.is_coord(),
        v.is_xstr(),
        v.is_list(),
        v.is_dict(),
        v.is_grid(),
    ]
}

/// For each of the 18 kinds: does the typed TryFrom<&Value> succeed, and the payload re-wrapped as a Value.
fn typed_conversions(v: &Value) -> Vec<(usize, &'static str, Option<Value>)> {
    vec![
        (1, "Remove", Remove::try_from(v).ok().map(Value::from)),
        (2, "Marker", Marker::try_from(v).ok().map(Value::from)),
        (3, "Na", Na::try_from(v).ok().map(Value::from)),
        (4, "bool", bool::try_from(v).ok().map(Value::make_bool)),
        (4, "Bool", Bool::try_from(v).ok().map(Value::from)),
        (5, "f64", f64::try_from(v).ok().map(|x| match v {
            // f64 drops the unit by design: compare the magnitude only
            Value::Number(n) => Value::from(Number { value: x, unit: n.unit }),
            _ => Value::make_number(x),
        })),
        (5, "Number", Number::try_from(v).ok().map(Value::from)),
        (6, "String", String::try_from(v).ok().map(|s| Value::make_str(&s))),
        (6, "Str", Str::try_from(v).ok().map(Value::from)),
        (7, "Uri", Uri::try_from(v).ok().map(Value::from)),
        (8, "Ref", Ref::try_from(v).ok().map(Value::from)),
        (9, "Symbol", Symbol::try_from(v).ok().map(Value::from)),
        (10, "Date", Date::try_from(v).ok().map(Value::from)),
        (11, "Time", Time::try_from(v).ok().map(Value::from)),
        (12, "DateTime", DateTime::try_from(v).ok().map(Value::from)),
        (13, "Coord", Coord::try_from(v).ok().map(Value::from)),
        (14, "XStr", XStr::try_from(v).ok().map(Value::from)),
        (15, "List", List::try_from(v).ok().map(Value::from)),
        (16, "Dict", Dict::try_from(v).ok().map(Value::from)),
        (17, "Grid", Grid::try_from(v).ok().map(Value::from)),
    ]
}

/// The typed Hayson deserialisers, fed the Hayson text of a value of any kind (a typed conversion like TryFrom).
fn typed_json(text: &str) -> Vec<(usize, &'static str, Option<Value>)> {
    use libhaystack::val::{Marker, Na, Remove};
    fn de<T: serde::de::DeserializeOwned>(text: &str) -> Option<T> {
        serde_json::from_str::<T>(text).ok()
    }
    vec![
        (1, "json:Remove", de::<Remove>(text).map(|_| Value::Remove)),
        (2, "json:Marker", de::<Marker>(text).map(|_| Value::Marker)),
        (3, "json:Na", de::<Na>(text).map(|_| Value::Na)),
        (5, "json:Number", de::<Number>(text).map(Value::from)),
        (6, "json:Str", de::<Str>(text).map(Value::from)),
        (7, "json:Uri", de::<Uri>(text).map(Value::from)),
        (8, "json:Ref", de::<Ref>(text).map(Value::from)),
        (9, "json:Symbol", de::<Symbol>(text).map(Value::from)),
        (10, "json:Date", de::<Date>(text).map(Value::from)),
        (11, "json:Time", de::<Time>(text).map(Value::from)),
        (12, "json:DateTime", de::<DateTime>(text).map(Value::from)),
        (13, "json:Coord", de::<Coord>(text).map(Value::from)),
        (14, "json:XStr", de::<XStr>(text).map(Value::from)),
        (16, "json:Dict", de::<Dict>(text).map(Value::from)),
        (17, "json:Grid", de::<Grid>(text).map(Value::from)),
    ]
}

fn dict_getters(d: &Dict, key: &str) -> Vec<(usize, &'static str, Option<Value>)> {
    vec![
        (4, "get_bool", d.get_bool(key).map(|x| Value::from(*x))),
        (5, "get_num", d.get_num(key).map(|x| Value::from(*x))),
        (6, "get_str", d.get_str(key).map(|x| Value::from(x.clone()))),
        (7, "get_uri", d.get_uri(key).map(|x| Value::from(x.clone()))),
        (8, "get_ref", d.get_ref(key).map(|x| Value::from(x.clone()))),
        (9, "get_symbol", d.get_symbol(key).map(|x| Value::from(x.clone()))),
        (10, "get_date", d.get_date(key).map(|x| Value::from(*x))),
        (11, "get_time", d.get_time(key).map(|x| Value::from(*x))),
        (12, "get_date_time", d.get_date_time(key).map(|x| Value::from(*x))),
        (13, "get_coord", d.get_coord(key).map(|x| Value::from(*x))),
        (14, "get_xstr", d.get_xstr(key).map(|x| Value::from(x.clone()))),
        (15, "get_list", d.get_list(key).map(|x| Value::from(x.clone()))),
        (16, "get_dict", d.get_dict(key).map(|x| Value::from(x.clone()))),
        (17, "get_grid", d.get_grid(key).map(|x| Value::from(x.clone()))),
    ]
}

fn kind_tables(ctx: &mut Ctx) {
    if !ctx.begin("kind-table", 0) {
        return;
    }
    // exhaustive: all 256 codes
    let mut by_code: BTreeMap<u8, HaystackKind> = BTreeMap::new();
    for code in 0u16..256 {
        let code = code as u8;
        ctx.eval("kind-code", 0x1900 + code as u64, true);
        if let Ok(k) = HaystackKind::try_from(code) {
            if k as u8 != code {
                ctx.violation("kind-code:not-inverse", &format!("try_from({code}) = {k:?} whose code is {}", k as u8), json!({"code": code}));
            }
            by_code.insert(code, k);
        }
    }
    if by_code.len() != 18 {
        ctx.violation("kind-code:count", &format!("{} codes map to a kind, expected 18", by_code.len()), json!({"codes": by_code.keys().collect::<Vec<_>>()}));
    }
    let kinds: Vec<HaystackKind> = by_code.values().cloned().collect();
    let distinct: BTreeSet<String> = kinds.iter().map(|k| format!("{k:?}")).collect();
    if distinct.len() != kinds.len() {
        ctx.violation("kind-code:shared", "two codes map to the same kind", json!({}));
    }
    // names
    let mut names = BTreeSet::new();
    for k in &kinds {
        let n1: &'static str = (*k).into();
        let n2 = k.to_string();
        ctx.eval("kind-name", crate::prng::hash_str(n1), true);
        if n1 != n2 {
            ctx.violation("kind-name:display-differs", &format!("{k:?}: into<&str>={n1} Display={n2}"), json!({}));
        }
        match HaystackKind::try_from(n1) {
            Ok(k2) if k2 == *k => {}
            other => ctx.violation("kind-name:not-inverse", &format!("{k:?} -> {n1:?} -> {other:?}"), json!({})),
        }
        if !names.insert(n1.to_string()) {
            ctx.violation("kind-name:shared", &format!("name {n1:?} used twice"), json!({}));
        }
        let expect = KIND_NAMES.get(*k as u8 as usize).copied();
        if !KIND_NAMES.contains(&n1) {
            ctx.violation("kind-name:unexpected", &format!("{k:?} is named {n1:?}"), json!({"expected_one_of": KIND_NAMES}));
        }
        let _ = expect;
    }
    // near-miss names must be rejected
    let mut near: Vec<String> = Vec::new();
    for n in KIND_NAMES {
        near.push(n.to_uppercase());
        near.push(format!(" {n}"));
        near.push(format!("{n} "));
        near.push(n[..n.len() - 1].to_string());
        near.push(format!("{n}s"));
        let mut c = n.chars();
        let f = c.next().unwrap();
        near.push(format!("{}{}", f.to_uppercase(), c.as_str()));
    }
    near.push(String::new());
    near.push("datetime".into());
    near.push("DateTime".into());
    near.push("xStr".into());
    // names other systems use for the same kinds
    for alias in ["string", "String", "boolean", "Bool", "int", "integer", "float", "double", "num", "Number", "date_time", "timestamp", "ts", "reference", "id", "sym", "tag", "bin", "Bin", "array", "vector", "object", "map", "record", "table", "none", "nil", "nan", "NA", "N", "M", "T", "F", "coordinate", "geo", "url", "link", "x", "remove_", "_remove", "mark", "Marker", "NULL", "Null"] {
        near.push(alias.to_string());
    }
    for n in near {
        if KIND_NAMES.contains(&n.as_str()) {
            continue;
        }
        ctx.eval("kind-name-nearmiss", crate::prng::hash_str(&n), true);
        if let Ok(k) = HaystackKind::try_from(n.as_str()) {
            ctx.violation("kind-name:accepts-non-name", &format!("{n:?} accepted as {k:?}"), json!({"name": n}));
        }
    }
    ctx.sample("kind-table", json!(kinds.iter().map(|k| format!("{}={:?}={}", *k as u8, k, k)).collect::<Vec<_>>()));
}

fn check_value(ctx: &mut Ctx, m: &MVal, v: &Value) {
    let p = predicates(v);
    let ntrue = p.iter().filter(|b| **b).count();
    let kind = m.kind();
    if ntrue != 1 || !p[kind] {
        let which: Vec<&str> = p.iter().enumerate().filter(|(_, b)| **b).map(|(i, _)| KIND_NAMES[i]).collect();
        ctx.violation(&format!("predicates:{}", m.kind_name()), &format!("value of kind {} has true predicates {:?}", m.kind_name(), which), json!({"value": truncate(&m.show(), 300)}));
    }
    let hk = HaystackKind::from(v);
    if hk as u8 as usize != kind || <&'static str>::from(hk) != KIND_NAMES[kind] {
        ctx.violation(&format!("kind-of-value:{}", m.kind_name()), &format!("HaystackKind::from gives {hk:?} for a {}", m.kind_name()), json!({"value": truncate(&m.show(), 300)}));
    }
    // the Bool payload predicates: is_true only for a true Bool, is_false only for a false Bool (as documented)
    let (want_true, want_false) = match m {
        MVal::Bool(b) => (*b, !*b),
        _ => (false, false),
    };
    if v.is_true() != want_true || v.is_false() != want_false {
        ctx.violation(&format!("bool-predicates:{}", m.kind_name()), &format!("is_true() = {}, is_false() = {} for {}", v.is_true(), v.is_false(), truncate(&m.show(), 100)), json!({"value": truncate(&m.show(), 300)}));
    }
    if v.has_value() != (kind != 0) {
        ctx.violation("has_value", "has_value() disagrees with is_null()", json!({"value": truncate(&m.show(), 300)}));
    }
    for (k, name, got) in typed_conversions(v) {
        match got {
            Some(back) => {
                if k != kind {
                    ctx.violation(&format!("tryfrom:{}:accepts:{}", name, m.kind_name()), &format!("{name}::try_from accepted a {}", m.kind_name()), json!({"value": truncate(&m.show(), 300)}));
                } else if observe(&back) != *m {
                    ctx.violation(&format!("tryfrom:{}:payload", name), &format!("{name}::try_from returned {} for {}", truncate(&observe(&back).show(), 200), truncate(&m.show(), 200)), json!({}));
                }
            }
            None => {
                if k == kind {
                    ctx.violation(&format!("tryfrom:{}:rejects-own-kind", name), &format!("{name}::try_from rejected a {}", m.kind_name()), json!({"value": truncate(&m.show(), 300)}));
                }
            }
        }
    }
}

/// typed Hayson deserialisation succeeds exactly for the matching kind and returns the payload
fn check_typed_json(ctx: &mut Ctx, m: &MVal, v: &Value) {
    let Ok(text) = serde_json::to_string(v) else { return };
    let kind = m.kind();
    ctx.stratum("typed-json-matrix");
    for (k, name, got) in typed_json(&text) {
        match got {
            Some(back) => {
                if k != kind {
                    ctx.violation(&format!("tryfrom:{}:accepts:{}", name, m.kind_name()), &format!("the typed Hayson deserialiser {name} accepted the Hayson of a {}", m.kind_name()), json!({"json": truncate(&text, 300)}));
                } else if observe(&back) != *m {
                    ctx.violation(&format!("tryfrom:{}:payload", name), &format!("{name} returned {} for {}", truncate(&observe(&back).show(), 200), truncate(&m.show(), 200)), json!({"json": truncate(&text, 300)}));
                }
            }
            None => {
                if k == kind {
                    ctx.violation(&format!("tryfrom:{}:rejects-own-kind", name), &format!("{name} rejected the Hayson of a {}", m.kind_name()), json!({"json": truncate(&text, 300)}));
                }
            }
        }
    }
}

/// Constructors and From impls keep the payload they are given (the other direction of the typed conversions).
fn check_constructors(ctx: &mut Ctx, rng: &mut Rng) {
    let i = rng.next_u64() as i64 >> rng.below(64);
    let small = i as i32;
    let f = crate::gen::gen_finite_f64(rng);
    let b = rng.coin();
    let s = gen_string(rng);
    let pairs: Vec<(&str, Value, MVal)> = vec![
        ("make_int", Value::make_int(i), MVal::Num(crate::model::F(i as f64), None)),
        ("From<i32>", Value::from(small), MVal::Num(crate::model::F(small as f64), None)),
        ("Number::from(i32)", Value::from(Number::from(small)), MVal::Num(crate::model::F(small as f64), None)),
        ("From<f64>", Value::from(f), MVal::Num(crate::model::F(f), None)),
        ("From<bool>", Value::from(b), MVal::Bool(b)),
        ("bool::from(Bool)", Value::make_bool(bool::from(Bool::from(b))), MVal::Bool(b)),
        ("From<Marker>", Value::from(Marker), MVal::Marker),
        ("From<Na>", Value::from(Na), MVal::Na),
        ("From<Remove>", Value::from(Remove), MVal::Remove),
        ("From<&str>", Value::from(s.as_str()), MVal::Str(s.clone())),
        ("Str::make", Value::from(Str::make(&s)), MVal::Str(s.clone())),
        ("Uri::make", Value::from(Uri::make(&s)), MVal::Uri(s.clone())),
        ("Symbol::make", Value::from(Symbol::make(&s)), MVal::Symbol(s.clone())),
        ("Ref::make", Value::from(Ref::make(&s, Some("d"))), MVal::Ref(s.clone(), Some("d".into()))),
        ("make_coord", Value::make_coord(Coord::make(1.5, -2.5)), MVal::Coord(crate::model::F(1.5), crate::model::F(-2.5))),
        ("make_xstr", Value::make_xstr(XStr::make("Bin", &s)), MVal::XStr("Bin".into(), s.clone())),
        ("make_true", Value::make_true(), MVal::Bool(true)),
        ("make_false", Value::make_false(), MVal::Bool(false)),
    ];
    ctx.stratum("constructors");
    for (name, got, want) in pairs {
        if observe(&got) != want {
            ctx.violation(&format!("constructor:{name}"), &format!("{name} built {}, expected {}", truncate(&observe(&got).show(), 200), truncate(&want.show(), 200)), json!({}));
        }
    }
}

fn check_dict_getters(ctx: &mut Ctx, rng: &mut Rng, m: &MVal, v: &Value) {
    let key = gen_key(rng);
    let other = format!("{key}x");
    let mut map = BTreeMap::new();
    map.insert(key.clone(), v.clone());
    if rng.coin() {
        map.insert(format!("{key}_2nd"), Value::make_str(&gen_string(rng)));
    }
    let d = Dict::from(map);
    let kind = m.kind();
    for (k, name, got) in dict_getters(&d, &key) {
        match got {
            Some(back) => {
                if k != kind {
                    ctx.violation(&format!("dict:{}:accepts:{}", name, m.kind_name()), &format!("{name} returned a value for a {}", m.kind_name()), json!({"value": truncate(&m.show(), 300)}));
                } else if observe(&back) != *m {
                    ctx.violation(&format!("dict:{}:payload", name), "getter returned a different payload", json!({"value": truncate(&m.show(), 300), "got": truncate(&observe(&back).show(), 300)}));
                }
            }
            None => {
                if k == kind {
                    ctx.violation(&format!("dict:{}:rejects-own-kind", name), &format!("{name} returned None for a {}", m.kind_name()), json!({"value": truncate(&m.show(), 300)}));
                }
            }
        }
    }
    for (_, name, got) in dict_getters(&d, &other) {
        if got.is_some() {
            ctx.violation(&format!("dict:{}:missing-key", name), "getter returned a value for a key that is not in the dict", json!({}));
        }
    }
    if !d.has(&key) || d.missing(&key) || d.has(&other) || !d.missing(&other) {
        ctx.violation("dict:has-missing", "has()/missing() wrong", json!({"key": key}));
    }
    if d.has_marker(&key) != (kind == 2) || d.has_na(&key) != (kind == 3) || d.has_remove(&key) != (kind == 1) {
        ctx.violation("dict:has_marker-na-remove", "has_marker/has_na/has_remove wrong", json!({"value": truncate(&m.show(), 200)}));
    }
    if d.has_marker(&other) || d.has_na(&other) || d.has_remove(&other) {
        ctx.violation("dict:has_marker-missing-key", "has_marker/has_na/has_remove true for a missing key", json!({}));
    }
    // id / mod shortcuts
    let mut map = BTreeMap::new();
    map.insert("id".to_string(), v.clone());
    map.insert("mod".to_string(), v.clone());
    let d = Dict::from(map);
    match (d.id(), kind == 8) {
        (Some(r), true) => {
            if observe(&Value::from(r.clone())) != *m || observe(&Value::from(d.safe_id())) != *m {
                ctx.violation("dict:id:payload", "id() returned a different ref", json!({}));
            }
        }
        (None, false) => {
            let s = d.safe_id();
            if !s.value.is_empty() || s.dis.is_some() {
                ctx.violation("dict:safe_id:default", "safe_id() of a dict without a Ref id is not the default Ref", json!({}));
            }
        }
        _ => ctx.violation("dict:id:kind", &format!("id() presence wrong for id of kind {}", m.kind_name()), json!({})),
    }
    if d.ts().is_some() != (kind == 12) {
        ctx.violation("dict:ts:kind", &format!("ts() presence wrong for mod of kind {}", m.kind_name()), json!({}));
    }
    // the shortcuts read exactly their own tag: the same value under a neighbouring name is not found
    let mut map = BTreeMap::new();
    for k in ["ts", "modified", "mod2", "Mod", "ID", "id2", "ref", "idRef"] {
        map.insert(k.to_string(), v.clone());
    }
    let d = Dict::from(map);
    if d.ts().is_some() || d.id().is_some() || !d.safe_id().value.is_empty() {
        ctx.violation("dict:shortcut:other-tag", &format!("id()/ts() found a {} stored under a tag that is neither 'id' nor 'mod'", m.kind_name()), json!({}));
    }
}

fn check_grid_build(ctx: &mut Ctx, rng: &mut Rng, idx: u64) {
    let nrows = rng.below(7);
    let mut rows_m = Vec::new();
    let mut rows = Vec::new();
    for _ in 0..nrows {
        let n = rng.below(6);
        let mut dm = crate::model::MDict::new();
        for _ in 0..n {
            // (tag names are any strings here: now and then names that sort differently by code point and by UTF-16 code unit)
            let key = if rng.chance(1, 12) { (*rng.pick::<&str>(&["ab\u{ff21}", "ab\u{1f600}", "ab\u{e000}", "\u{10000}", "\u{ffff}", "\u{fffd}x", "\u{1f600}"])).to_string() } else { gen_key(rng) };
            dm.insert(key, gen_value(rng, 1));
        }
        let v = to_value_with(&MVal::Dict(dm.clone()), 0);
        if let Value::Dict(d) = v {
            rows.push(d);
        }
        rows_m.push(dm);
    }
    let expected_cols: Vec<String> = rows_m.iter().flat_map(|r| r.keys().cloned()).collect::<BTreeSet<_>>().into_iter().collect();
    let with_meta = rng.coin();
    let meta_m: crate::model::MDict = if with_meta { [("m".to_string(), MVal::Marker), ("n".to_string(), MVal::num(idx as f64))].into_iter().collect() } else { Default::default() };
    let g = match catch(|| {
        if with_meta {
            let Value::Dict(md) = to_value_with(&MVal::Dict(meta_m.clone()), 0) else { unreachable!() };
            Grid::make_from_dicts_with_meta(rows.clone(), md)
        } else if idx % 2 == 0 {
            Grid::make_from_dicts(rows.clone())
        } else {
            match Value::make_grid_from_dicts(rows.clone()) {
                Value::Grid(g) => g,
                _ => panic!("make_grid_from_dicts did not return a grid"),
            }
        }
    }) {
        Ok(g) => g,
        Err(p) => {
            ctx.violation(&format!("grid-build:{}", panic_sig(&p)), &p.msg, json!({"rows": nrows}));
            return;
        }
    };
    let fp = crate::prng::mix(&[0x19, crate::model::dict_fp(&meta_m), rows_m.iter().fold(7u64, |a, r| crate::prng::mix(&[a, crate::model::dict_fp(r)]))]);
    ctx.eval("grid-build", fp, nrows > 0);
    let cols: Vec<String> = g.columns.iter().map(|c| c.name.clone()).collect();
    if cols != expected_cols {
        ctx.violation("grid-build:columns", &format!("columns {:?}, expected sorted distinct union {:?}", cols, expected_cols), json!({}));
    }
    if g.columns.iter().any(|c| c.meta.as_ref().is_some_and(|m| !m.is_empty())) {
        ctx.violation("grid-build:colmeta", "columns built from records carry meta", json!({}));
    }
    let got_rows: Vec<crate::model::MDict> = g.rows.iter().map(observe_dict).collect();
    if got_rows != rows_m {
        ctx.violation("grid-build:rows", "rows differ from the records given (content or order)", json!({"expected": rows_m.len(), "got": got_rows.len()}));
    }
    if g.len() != nrows || g.is_empty() != (nrows == 0) {
        ctx.violation("grid-build:len", "len()/is_empty() wrong", json!({}));
    }
    let got_meta = g.meta.as_ref().map(observe_dict).unwrap_or_default();
    if got_meta != meta_m {
        ctx.violation("grid-build:meta", "grid meta differs from the meta given", json!({}));
    }
    for (i, r) in g.rows.iter().enumerate() {
        if r.keys().any(|k| !cols.contains(k)) {
            ctx.violation("grid-build:row-key-not-column", "a row key is not a column", json!({"row": i}));
        }
        if observe_dict(&g[i]) != rows_m[i] {
            ctx.violation("grid-build:index", "Index<usize> returns a different row", json!({"row": i}));
        }
    }
    let iterated: Vec<crate::model::MDict> = (&g).into_iter().map(observe_dict).collect();
    if iterated != rows_m {
        ctx.violation("grid-build:iter", "iteration yields different rows", json!({}));
    }
    if ctx.wants_sample("grid-build") && nrows > 1 {
        ctx.sample("grid-build", json!({"records": rows_m.iter().map(|r| r.keys().cloned().collect::<Vec<_>>()).collect::<Vec<_>>(), "columns": cols}));
    }
}

pub fn run(ctx: &mut Ctx) {
    kind_tables(ctx);
    let n = ctx.n(4_000, 120_000);
    for i in 0..n {
        if !ctx.begin("value", i) {
            continue;
        }
        let mut rng = ctx.case_rng("value", i);
        let m = if i % 3 == 0 { crate::gen::gen_scalar_of_kind(&mut rng, ((i / 3) % 15) as usize) } else { gen_value(&mut rng, 3) };
        let v = to_value_with(&m, rng.next_u64());
        ctx.eval(m.kind_name(), m.fp(), true);
        if ctx.wants_sample(m.kind_name()) {
            ctx.sample(m.kind_name(), json!(truncate(&m.show(), 200)));
        }
        check_value(ctx, &m, &v);
        check_typed_json(ctx, &m, &v);
        check_constructors(ctx, &mut rng);
        check_dict_getters(ctx, &mut rng, &m, &v);
    }
    let n = ctx.n(1_500, 40_000);
    for i in 0..n {
        if !ctx.begin("grid-build", i) {
            continue;
        }
        let mut rng = ctx.case_rng("grid-build", i);
        check_grid_build(ctx, &mut rng, i);
    }
}
