//! C10 — encoders never panic on any constructible value (well-formed or not), depth <= 64.

use crate::ctx::{truncate, Ctx};
use crate::gen::{gen_string, gen_value};
use crate::prng::Rng;
use crate::util::{catch, panic_sig};
use chrono::{NaiveDate, NaiveTime, TimeZone};
use libhaystack::encoding::zinc::encode::{to_zinc_string, ToZinc};
use libhaystack::units::Unit;
use libhaystack::val::*;
use serde_json::json;
use std::borrow::Cow;

fn any_string(rng: &mut Rng) -> String {
    match rng.below(12) {
        0 => String::new(),
        1 => "\0".into(),
        2 => "é".into(),
        3 => "😀x".into(),
        4 => " ".into(),
        5 => "a b".into(),
        6 => "\n".into(),
        7 => "Ünï".into(),
        _ => gen_string(rng),
    }
}

fn any_unit(rng: &mut Rng) -> Option<&'static Unit> {
    match rng.below(4) {
        0 => None,
        1 => Some(&*libhaystack::units::DEFAULT_UNIT),
        _ => {
            let us = crate::bridge::all_units();
            Some(us[rng.below(us.len())])
        }
    }
}

fn any_f64(rng: &mut Rng) -> f64 {
    match rng.below(8) {
        0 => f64::NAN,
        1 => f64::INFINITY,
        2 => f64::NEG_INFINITY,
        3 => -0.0,
        4 => f64::from_bits(rng.next_u64()),
        _ => crate::gen::gen_finite_f64(rng),
    }
}

fn any_scalar(rng: &mut Rng) -> Value {
    match rng.below(16) {
        0 => Value::Null,
        1 => Value::Marker,
        2 => Value::Na,
        3 => Value::Remove,
        4 => Value::make_bool(rng.coin()),
        5 => Value::Number(Number { value: any_f64(rng), unit: any_unit(rng) }),
        6 => Value::make_str(&any_string(rng)),
        7 => Value::make_uri(&any_string(rng)),
        8 => Value::Ref(Ref { value: any_string(rng), dis: if rng.coin() { Some(any_string(rng)) } else { None } }),
        9 => Value::make_symbol(&any_string(rng)),
        10 => {
            let y = match rng.below(5) {
                0 => -262143,
                1 => 262142,
                2 => -1,
                3 => 10000,
                _ => rng.range(-3000, 12000) as i32,
            };
            match NaiveDate::from_ymd_opt(y, 1 + rng.below(12) as u32, 1 + rng.below(28) as u32) {
                Some(d) => Value::make_date(Date::from(d)),
                None => Value::Null,
            }
        }
        11 => {
            let nanos = match rng.below(4) {
                0 => 1_999_999_999, // leap second representation
                1 => 1,
                _ => rng.below(1_000_000_000) as u32,
            };
            match NaiveTime::from_hms_nano_opt(rng.below(24) as u32, rng.below(60) as u32, 59, nanos) {
                Some(t) => Value::make_time(Time::from(t)),
                None => Value::Null,
            }
        }
        12 => {
            let tzs = chrono_tz::TZ_VARIANTS;
            let tz = tzs[rng.below(tzs.len())];
            // the very edge of what a timestamp can hold: the local time (UTC + offset) may not be representable
            if rng.chance(1, 8) {
                use chrono::TimeZone;
                let edge = if rng.coin() { chrono::NaiveDateTime::MAX } else { chrono::NaiveDateTime::MIN };
                let back = chrono::Duration::seconds(rng.range(0, 100_000));
                let ndt = if edge == chrono::NaiveDateTime::MAX { edge - back } else { edge + back };
                return Value::make_datetime(DateTime::from(tz.from_utc_datetime(&ndt)));
            }
            let secs = match rng.below(6) {
                0 => -62_167_219_200 - 86400 * 400, // before year 0
                1 => 253_402_300_800 + 86400 * 400, // after year 9999
                2 => 0,
                // the repeated / skipped local hour around a daylight-saving change
                3 => crate::gen::near_transition(rng, tz).unwrap_or(1_600_000_000),
                _ => rng.range(-4_000_000_000, 8_000_000_000),
            };
            match tz.timestamp_opt(secs, rng.below(1_000_000_000) as u32).single() {
                Some(d) => Value::make_datetime(DateTime::from(d)),
                None => Value::Null,
            }
        }
        13 => Value::make_coord_from(any_f64(rng), any_f64(rng)),
        14 => Value::make_xstr_from(&any_string(rng), &any_string(rng)),
        _ => Value::make_str(""),
    }
}

fn any_dict(rng: &mut Rng, depth: usize, budget: &mut i64) -> Dict {
    let mut d = Dict::new();
    let n = if rng.chance(1, 5) { 0 } else { rng.below(4) };
    for _ in 0..n {
        let k = if rng.coin() { any_string(rng) } else { crate::gen::gen_key(rng) };
        d.insert(k, any_value(rng, depth, budget));
    }
    d
}

fn any_grid(rng: &mut Rng, depth: usize, budget: &mut i64) -> Grid {
    let ncols = rng.below(4); // zero columns allowed
    let mut columns = Vec::new();
    for _ in 0..ncols {
        let name = match rng.below(4) {
            0 => any_string(rng),
            1 => "a".to_string(), // duplicates likely
            _ => crate::gen::gen_key(rng),
        };
        columns.push(Column { name, meta: if rng.chance(1, 3) { Some(any_dict(rng, depth, budget)) } else { None } });
    }
    let nrows = rng.below(4);
    // rows and columns may disagree
    let rows = (0..nrows).map(|_| any_dict(rng, depth, budget)).collect();
    Grid {
        meta: match rng.below(3) {
            0 => None,
            1 => Some(Dict::new()),
            _ => Some(any_dict(rng, depth, budget)),
        },
        columns,
        rows,
        ver: if rng.chance(1, 4) { any_string(rng) } else { "3.0".into() },
    }
}

fn any_value(rng: &mut Rng, depth: usize, budget: &mut i64) -> Value {
    *budget -= 1;
    if depth == 0 || *budget <= 0 || rng.chance(1, 2) {
        return any_scalar(rng);
    }
    match rng.below(3) {
        0 => Value::make_list((0..rng.below(4)).map(|_| any_value(rng, depth - 1, budget)).collect()),
        1 => Value::make_dict(any_dict(rng, depth - 1, budget)),
        _ => Value::make_grid(any_grid(rng, depth - 1, budget)),
    }
}

pub fn any_value_top(rng: &mut Rng) -> Value {
    let mut budget = 30i64;
    if rng.chance(1, 3) {
        any_scalar(rng)
    } else {
        any_value(rng, 3, &mut budget)
    }
}

/// A chain of `depth` nested collections ending in an ill-formed scalar.
fn deep_value(rng: &mut Rng, depth: usize) -> Value {
    let mut v = any_scalar(rng);
    for _ in 0..depth {
        v = match rng.below(4) {
            0 => Value::make_list(vec![v]),
            1 => {
                let mut d = Dict::new();
                d.insert(any_string(rng), v);
                Value::make_dict(d)
            }
            2 => {
                let mut d = Dict::new();
                d.insert("a".into(), v);
                Value::make_grid(Grid::make_from_dicts(vec![d]))
            }
            _ => {
                let mut d = Dict::new();
                d.insert("m".into(), v);
                let mut g = Grid::make_empty();
                g.meta = Some(d);
                Value::make_grid(g)
            }
        };
    }
    v
}

fn depth_of(v: &Value) -> usize {
    match v {
        Value::List(l) => 1 + l.iter().map(depth_of).max().unwrap_or(0),
        Value::Dict(d) => 1 + d.values().map(depth_of).max().unwrap_or(0),
        Value::Grid(g) => {
            let mut m = 0;
            for d in g.meta.iter().chain(g.rows.iter()).chain(g.columns.iter().filter_map(|c| c.meta.as_ref())) {
                m = m.max(d.values().map(depth_of).max().unwrap_or(0));
            }
            1 + m
        }
        _ => 0,
    }
}

fn kind_path(v: &Value) -> String {
    // coarse class for the signature: top kind only
    let k: &'static str = kind::HaystackKind::from(v).into();
    k.to_string()
}

fn fp_of_debug(v: &Value) -> u64 {
    crate::prng::hash_str(&format!("{v:?}"))
}

/// A writer that accepts at most `chunk` bytes per write(), returns Interrupted every few calls, and (when
/// `fail_after` is set) fails for good once that many bytes were taken.
struct HostileWriter {
    out: Vec<u8>,
    chunk: usize,
    calls: u64,
    fail_after: Option<usize>,
}
impl std::io::Write for HostileWriter {
    fn write(&mut self, buf: &[u8]) -> std::io::Result<usize> {
        self.calls += 1;
        if self.calls % 5 == 3 {
            return Err(std::io::Error::new(std::io::ErrorKind::Interrupted, "interrupted"));
        }
        if let Some(limit) = self.fail_after {
            if self.out.len() >= limit {
                // the ways a real sink fails: an error with a message payload, a bare kind, an OS error code,
                // or simply taking no more bytes (write_all turns that into WriteZero)
                return match limit % 4 {
                    0 => Err(std::io::Error::new(std::io::ErrorKind::BrokenPipe, "peer went away")),
                    1 => Err(std::io::Error::from(std::io::ErrorKind::BrokenPipe)),
                    2 => Err(std::io::Error::from_raw_os_error(28)),
                    _ => Ok(0),
                };
            }
        }
        let mut n = buf.len().min(self.chunk.max(1));
        if let Some(limit) = self.fail_after {
            n = n.min(limit - self.out.len());
        }
        self.out.extend_from_slice(&buf[..n]);
        Ok(n)
    }
    fn flush(&mut self) -> std::io::Result<()> {
        Ok(())
    }
}

/// Streaming encoders into writers that take a few bytes at a time / fail midway: never a panic; a writer that never
/// fails for good receives exactly the bytes of the buffered encoding; a writer that fails yields an error.
fn encode_to_writers(ctx: &mut Ctx, v: &Value, origin: &str) {
    let seed = fp_of_debug(v);
    let chunk = 1 + (seed % 7) as usize;
    for fmt in ["zinc", "hayson"] {
        let buffered: Option<Vec<u8>> = match catch(|| if fmt == "zinc" { to_zinc_string(v).ok().map(String::into_bytes) } else { serde_json::to_vec(v).ok() }) {
            Ok(b) => b,
            Err(_) => continue, // reported by encode_all
        };
        let run = |fail_after: Option<usize>| {
            catch(|| {
                let mut w = HostileWriter { out: Vec::new(), chunk, calls: seed % 5, fail_after };
                let ok = if fmt == "zinc" { v.to_zinc(&mut w).is_ok() } else { serde_json::to_writer(&mut w, v).is_ok() };
                (ok, w.out)
            })
        };
        match run(None) {
            Err(p) => ctx.violation(&format!("encoder-panic:{fmt}-writer:{}:{}", panic_sig(&p), kind_path(v)), &format!("{fmt} encoding into a short-write writer panicked on a {} ({origin}): {}", kind_path(v), p.msg), json!({"value_debug": truncate(&format!("{v:?}"), 1200)})),
            Ok((ok, bytes)) => {
                ctx.stratum("writer:short-writes");
                match &buffered {
                    Some(b) if !ok || *b != bytes => ctx.violation(&format!("writer:{fmt}:stream-differs-from-buffer:{}", kind_path(v)), &format!("{fmt} encoding into a writer that takes {chunk} byte(s) at a time gave {} bytes (ok={ok}), the buffered encoding has {}", bytes.len(), b.len()), json!({"value_debug": truncate(&format!("{v:?}"), 800)})),
                    None if ok => ctx.violation(&format!("writer:{fmt}:stream-succeeds-buffer-fails:{}", kind_path(v)), "the streaming encoder succeeded where the buffered one returns an error", json!({"value_debug": truncate(&format!("{v:?}"), 800)})),
                    _ => {}
                }
            }
        }
        if let Some(b) = &buffered {
            if !b.is_empty() {
                let cut = (seed as usize / 7) % b.len();
                match run(Some(cut)) {
                    Err(p) => ctx.violation(&format!("encoder-panic:{fmt}-failing-writer:{}:{}", panic_sig(&p), kind_path(v)), &format!("{fmt} encoding into a writer that fails after {cut} bytes panicked: {}", p.msg), json!({"value_debug": truncate(&format!("{v:?}"), 1200)})),
                    Ok((ok, bytes)) => {
                        ctx.stratum("writer:fails-midway");
                        if ok {
                            ctx.violation(&format!("writer:{fmt}:io-error-swallowed:{}", kind_path(v)), &format!("the writer failed after {cut} of {} bytes but the encoder reported success", b.len()), json!({"value_debug": truncate(&format!("{v:?}"), 800)}));
                        } else if !b.starts_with(&bytes) {
                            ctx.violation(&format!("writer:{fmt}:partial-output-not-a-prefix:{}", kind_path(v)), "the bytes written before the failure are not a prefix of the buffered encoding", json!({"value_debug": truncate(&format!("{v:?}"), 800)}));
                        }
                        // a failed encode leaves no trace: encoding the same value again on this thread gives the same text
                        let again: Option<Vec<u8>> = catch(|| if fmt == "zinc" { to_zinc_string(v).ok().map(String::into_bytes) } else { serde_json::to_vec(v).ok() }).unwrap_or(None);
                        if again.as_ref() != Some(b) {
                            ctx.violation(&format!("writer:{fmt}:failed-encode-changes-later-output:{}", kind_path(v)), &format!("after an encode into a failing writer, encoding the same value again gives {:?} instead of {:?}", again.map(|a| truncate(&String::from_utf8_lossy(&a), 200)), truncate(&String::from_utf8_lossy(b), 200)), json!({"value_debug": truncate(&format!("{v:?}"), 800)}));
                        }
                    }
                }
            }
        }
    }
}

/// Run every encoder on the value; any panic is a violation.
pub fn encode_all(ctx: &mut Ctx, v: &Value, origin: &str) {
    encode_to_writers(ctx, v, origin);
    let encoders: [(&str, Box<dyn Fn(&Value)>); 8] = [
        ("to_zinc_string", Box::new(|v| {
            let _ = to_zinc_string(v);
        })),
        ("ToZinc::to_zinc_string", Box::new(|v| {
            let _ = v.to_zinc_string();
        })),
        ("serde_json::to_string", Box::new(|v| {
            let _ = serde_json::to_string(v);
        })),
        ("serde_json::to_value", Box::new(|v| {
            let _ = serde_json::to_value(v);
        })),
        ("Display", Box::new(|v| {
            use std::fmt::Write;
            let mut s = String::new();
            let _ = write!(s, "{}", v);
        })),
        // what users actually call: to_string()/format! panic if the Display impl returns an error
        ("to_string", Box::new(|v| {
            let _ = v.to_string();
            let _ = format!("{v}");
        })),
        ("typed", Box::new(|v| match v {
            Value::Ref(r) => {
                let _ = r.to_zinc_string();
                let _ = format!("{}", r);
                let _ = serde_json::to_string(r);
            }
            Value::Symbol(r) => {
                let _ = r.to_zinc_string();
                let _ = format!("{}", r);
                let _ = serde_json::to_string(r);
            }
            Value::XStr(r) => {
                let _ = r.to_zinc_string();
                let _ = serde_json::to_string(r);
            }
            Value::Uri(r) => {
                let _ = r.to_zinc_string();
                let _ = serde_json::to_string(r);
            }
            Value::Number(r) => {
                let _ = r.to_zinc_string();
                let _ = serde_json::to_string(r);
            }
            Value::Coord(r) => {
                let _ = r.to_zinc_string();
                let _ = serde_json::to_string(r);
            }
            Value::Date(r) => {
                let _ = r.to_zinc_string();
                let _ = serde_json::to_string(r);
                use std::fmt::Write;
                let mut s = String::new();
                let _ = write!(s, "{}", r);
            }
            Value::Time(r) => {
                let _ = r.to_zinc_string();
                let _ = serde_json::to_string(r);
            }
            Value::DateTime(r) => {
                let _ = r.to_zinc_string();
                let _ = serde_json::to_string(r);
                use std::fmt::Write;
                let mut s = String::new();
                let _ = write!(s, "{}", r);
            }
            Value::Grid(g) => {
                let _ = g.to_zinc_string();
                let _ = serde_json::to_string(g);
                for c in &g.columns {
                    let _ = c.to_zinc_string();
                    let _ = serde_json::to_string(c);
                }
            }
            Value::Dict(d) => {
                let _ = d.to_zinc_string();
                let _ = serde_json::to_string(d);
                use std::fmt::Write;
                let mut s = String::new();
                let _ = write!(s, "{}", d);
            }
            Value::List(l) => {
                let _ = l.to_zinc_string();
                let _ = serde_json::to_string(l);
            }
            _ => {}
        })),
        ("Dict::dis", Box::new(|v| {
            if let Value::Dict(d) = v {
                let _ = d.dis().to_string();
                let loc = |k: &str| -> Option<Cow<str>> { if k.len() % 2 == 0 { Some(Cow::Owned(format!("<{k}>"))) } else { None } };
                let _ = dict_to_dis(d, &loc, Some(Cow::Borrowed("default"))).to_string();
            }
        })),
    ];
    for (name, f) in encoders.iter() {
        if let Err(p) = catch(|| f(v)) {
            let sig = format!("encoder-panic:{}:{}:{}", name, panic_sig(&p), kind_path(v));
            ctx.violation(
                &sig,
                &format!("{name} panicked on a {} ({origin}): {} at {}:{}", kind_path(v), p.msg, p.file, p.line),
                json!({"value_debug": truncate(&format!("{v:?}"), 1200), "origin": origin}),
            );
        }
    }
}

const FOREIGN_JSON: [&str; 14] = [
    r#"{"_kind":"xstr","type":"","val":"x"}"#,
    r#"{"_kind":"xstr","type":"é","val":"\u0000"}"#,
    r#"{"_kind":"ref","val":"","dis":"\"\\"}"#,
    r#"{"_kind":"symbol","val":"Ü x"}"#,
    r#"{"_kind":"uri","val":"\u0001`"}"#,
    r#"{"_kind":"grid","cols":[],"rows":[{"":1}]}"#,
    r#"{"_kind":"grid","meta":{"ver":"9"},"cols":[{"name":""},{"name":""}],"rows":[{"x":{"_kind":"marker"}}]}"#,
    r#"{"":{"":[{"_kind":"coord","lat":1e308,"lng":-1e308}]}}"#,
    r#"{"_kind":"number","val":1e308,"unit":"%"}"#,
    r#"{"_kind":"date","val":"+10000-01-01"}"#,
    r#"{"_kind":"time","val":"23:59:60"}"#,
    r#"{"_kind":"dateTime","val":"9999-12-31T23:59:59.999999999+14:00","tz":"Kiritimati"}"#,
    r#"{"_kind":"dateTime","val":"0000-01-01T00:00:00-12:00"}"#,
    r#"[[[[[[[[[[{"_kind":"xstr","type":"a","val":""}]]]]]]]]]]"#,
];

const FOREIGN_ZINC: [&str; 8] = [
    "ver:\"3.0\" a:\"\\u0000\"\nx y:{} z:[],w\n`\\u00e9`,N\n",
    "{a:@_ \"\\\\\" b:^a-b:c c:X(\"\")}",
    "[C(1,2),NaN,-INF,INF,1e400,`\u{e9}`]",
    "ver:\"2.0\"\nempty\n",
    "Abc(\"\u{1F600}\")",
    "2021-01-01T00:00:00Z Zulu",
    "0000-01-01",
    "[<<\nver:\"3.0\"\na\n<<\nver:\"3.0\"\nb\n1\n>>\n>>]",
];

pub fn run(ctx: &mut Ctx) {
    // decoder images of foreign input, offered to the other encoders
    if ctx.begin("foreign", 0) {
        for (i, t) in FOREIGN_JSON.iter().enumerate() {
            if let Ok(Ok(v)) = catch(|| serde_json::from_str::<Value>(t)) {
                ctx.eval("foreign:json-image", 0x10_0000 + i as u64, true);
                encode_all(ctx, &v, &format!("image of Hayson {t}"));
            } else {
                ctx.stratum("foreign:json-rejected");
            }
        }
        for (i, t) in FOREIGN_ZINC.iter().enumerate() {
            if let Ok(Ok(v)) = catch(|| libhaystack::encoding::zinc::decode::from_str(t)) {
                ctx.eval("foreign:zinc-image", 0x20_0000 + i as u64, true);
                encode_all(ctx, &v, &format!("image of Zinc {t:?}"));
            } else {
                ctx.stratum("foreign:zinc-rejected");
            }
        }
    }
    // boundary offsets (see gen::boundary_value) through every encoder
    {
        let lens = crate::gen::boundary_lengths();
        for (li, n) in lens.iter().enumerate() {
            if (li as u64) % ctx.nshards != ctx.shard || (ctx.quick() && *n > 1100 && *n < 65000) {
                continue;
            }
            if !ctx.begin("boundary-offset", li as u64) {
                continue;
            }
            for c in crate::gen::BOUNDARY_CHARS {
                let v = crate::bridge::to_value(&crate::gen::boundary_value(*n, c));
                ctx.eval("boundary-offset", crate::prng::mix(&[*n as u64, c as u64]), true);
                encode_all(ctx, &v, "boundary offset");
            }
        }
    }
    // very many siblings: more than 2^16 columns, rows, elements, tags (one empty row and one empty dict among them)
    if ctx.shard == 0 && ctx.begin("huge", 0) {
        let n = 65_537usize + 5;
        let num = |i: usize| Value::make_number(i as f64);
        let mut row = Dict::new();
        row.insert("c7".into(), num(7));
        let grid_cols = Grid { meta: None, columns: (0..n).map(|i| Column { name: format!("c{i}"), meta: None }).collect(), rows: vec![Dict::new(), row.clone(), Dict::new()], ver: GRID_FORMAT_VERSION.to_string() };
        let grid_rows = Grid { meta: None, columns: vec![Column { name: "c7".into(), meta: None }, Column { name: "b".into(), meta: None }], rows: (0..n).map(|i| if i % 3 == 0 { Dict::new() } else { row.clone() }).collect(), ver: GRID_FORMAT_VERSION.to_string() };
        let list = Value::make_list((0..n).map(num).collect());
        let mut big = Dict::new();
        for i in 0..n {
            big.insert(format!("t{i}"), if i % 2 == 0 { Value::Marker } else { num(i) });
        }
        for (k, v) in [Value::make_grid(grid_cols), Value::make_grid(grid_rows), list, Value::make_dict(big), Value::make_str(&"x".repeat(n))].iter().enumerate() {
            ctx.eval("huge", 0x4855_0000 + k as u64, true);
            encode_all(ctx, v, "more than 2^16 siblings");
        }
    }
    let n = ctx.n(12_000, 300_000);
    for i in 0..n {
        if !ctx.begin("illformed", i) {
            continue;
        }
        let mut rng = ctx.case_rng("illformed", i);
        let mut budget = 40i64;
        let v = match i % 4 {
            0 => any_scalar(&mut rng),
            _ => any_value(&mut rng, 5, &mut budget),
        };
        ctx.eval(&format!("illformed:{}", kind_path(&v)), fp_of_debug(&v), true);
        if ctx.wants_sample(&format!("illformed:{}", kind_path(&v))) {
            ctx.sample(&format!("illformed:{}", kind_path(&v)), json!(truncate(&format!("{v:?}"), 300)));
        }
        encode_all(ctx, &v, "ill-formed generator");
    }
    let n = ctx.n(600, 10_000);
    for i in 0..n {
        if !ctx.begin("deep", i) {
            continue;
        }
        let mut rng = ctx.case_rng("deep", i);
        let depth = [1, 2, 8, 16, 32, 48, 63, 64][(i % 8) as usize];
        let v = deep_value(&mut rng, depth);
        ctx.eval(&format!("deep:{}", depth_of(&v)), fp_of_debug(&v), true);
        encode_all(ctx, &v, "deep chain");
    }
    // images of both decoders on the well-formed generator's output re-encoded by the *other* codec
    let n = ctx.n(3_000, 60_000);
    for i in 0..n {
        if !ctx.begin("cross-codec", i) {
            continue;
        }
        let mut rng = ctx.case_rng("cross-codec", i);
        let m = gen_value(&mut rng, 3);
        let v = crate::bridge::to_value_with(&m, rng.next_u64());
        ctx.eval("cross-codec", m.fp(), m.size() > 1);
        // zinc image -> json, json image -> zinc
        if let Ok(Ok(text)) = catch(|| to_zinc_string(&v)) {
            if let Ok(Ok(img)) = catch(|| libhaystack::encoding::zinc::decode::from_str(&text)) {
                encode_all(ctx, &img, "zinc decoder image");
            }
        }
        if let Ok(Ok(text)) = catch(|| serde_json::to_string(&v)) {
            if let Ok(Ok(img)) = catch(|| serde_json::from_str::<Value>(&text)) {
                encode_all(ctx, &img, "hayson decoder image");
            }
        }
    }
}
