//! C15 — every database unit is found by each of its names and survives both codecs;
//! C16 — conversion and arithmetic are dimensionally sound. (Two monitors, one file: same tables.)

use crate::bridge::all_units;
use crate::ctx::{truncate, Ctx};
use crate::prng::Rng;
use crate::refzinc::Writer;
use crate::util::{catch, panic_sig};
use libhaystack::encoding::zinc::decode::from_str;
use libhaystack::encoding::zinc::encode::to_zinc_string;
use libhaystack::units::{get_unit, Unit};
use libhaystack::val::{Number, Value};
use serde_json::json;
use std::collections::HashSet;

const MAGNITUDES: [f64; 9] = [1.5, -40.0, 0.001, 1e21, 1e-7, 5e-324, 0.0, -0.0, 123456.789];

fn is_zinc_unit_text(s: &str) -> bool {
    !s.is_empty() && s.chars().all(|c| c.is_ascii_alphabetic() || "$/%_".contains(c) || (c as u32) >= 0x80)
}

fn same(a: &Unit, b: &Unit) -> bool {
    std::ptr::eq(a, b)
}

fn num_of(v: &Value) -> Option<Number> {
    Number::try_from(v).ok()
}

/// The first unit lookups of this process, from eight threads at once (same idea as C06's cold start).
fn cold_start_units(ctx: &mut Ctx) {
    let units = all_units();
    let barrier = std::sync::Barrier::new(8);
    let bad: Vec<String> = std::thread::scope(|s| {
        let hs: Vec<_> = (0..8usize)
            .map(|t| {
                let barrier = &barrier;
                s.spawn(move || {
                    let mut bad = Vec::new();
                    barrier.wait();
                    let order: Vec<usize> = if t % 2 == 0 { (0..units.len()).rev().collect() } else { (0..units.len()).collect() };
                    for ui in order.into_iter().filter(|ui| ui % 8 == t) {
                        let u = units[ui];
                        for id in &u.ids {
                            match catch(|| get_unit(id)) {
                                Ok(Some(g)) if same(g, u) => {}
                                Ok(other) => bad.push(format!("get_unit({id:?}) on thread {t} gives {:?}", other.map(|x| x.name().to_string()))),
                                Err(p) => bad.push(format!("get_unit({id:?}) on thread {t} panics: {}", p.msg)),
                            }
                            if is_zinc_unit_text(id) {
                                let text = format!("5{id}");
                                match catch(|| from_str(&text)) {
                                    Ok(Ok(v)) if num_of(&v).is_some_and(|n| n.unit.is_some_and(|g| same(g, u))) => {}
                                    Ok(r) => bad.push(format!("decoding {text:?} on thread {t} gives {:?}", r.map(|v| crate::bridge::observe(&v).show()))),
                                    Err(p) => bad.push(format!("decoding {text:?} on thread {t} panics: {}", p.msg)),
                                }
                            }
                        }
                    }
                    bad
                })
            })
            .collect();
        hs.into_iter().flat_map(|h| h.join().unwrap_or_default()).collect()
    });
    ctx.eval("cold-start", ctx.shard, true);
    for b in bad.iter().take(3) {
        ctx.violation("cold-start:concurrent-first-lookups", &format!("among the first unit lookups of the process, issued by 8 threads at once: {b}"), json!({"failures": bad.len()}));
    }
}

pub fn run_c15(ctx: &mut Ctx) {
    // all_units() reads the table itself, not the lookup functions: the library's own first lookup happens in the threads
    if ctx.begin("cold-start", 0) {
        cold_start_units(ctx);
    }
    let units = all_units();
    ctx.note("units_in_database", json!(units.len()));
    let all_ids: HashSet<&str> = units.iter().flat_map(|u| u.ids.iter().map(|s| s.as_str())).collect();
    ctx.note("identifiers_in_database", json!(all_ids.len()));
    // exhaustive: units x ids (shards split the units)
    for (ui, u) in units.iter().enumerate() {
        if (ui as u64) % ctx.nshards != ctx.shard {
            continue;
        }
        if !ctx.begin("unit", ui as u64) {
            continue;
        }
        for (k, id) in u.ids.iter().enumerate() {
            ctx.eval("lookup", crate::prng::hash_str(id), true);
            match catch(|| get_unit(id)) {
                Err(p) => ctx.violation(&format!("lookup:{}", panic_sig(&p)), &p.msg, json!({"id": id})),
                Ok(None) => ctx.violation("lookup:own-id-not-found", &format!("get_unit({id:?}) is None although {} lists it", u.name()), json!({"unit": u.name(), "id": id})),
                Ok(Some(g)) if !same(g, u) => ctx.violation("lookup:other-unit", &format!("get_unit({id:?}) returns {} instead of {}", g.name(), u.name()), json!({"unit": u.name(), "id": id})),
                Ok(Some(_)) => {}
            }
            // the defaulting lookups (get_unit_or_default, <&Unit>::from(&str)) find it as well
            match catch(|| (libhaystack::units::get_unit_or_default(id), <&'static Unit>::from(id.as_str()))) {
                Ok((a, b)) if same(a, u) && same(b, u) => {}
                Ok((a, b)) => ctx.violation("lookup:or-default:other-unit", &format!("get_unit_or_default({id:?}) / <&Unit>::from give {} / {} instead of {}", a.name(), b.name(), u.name()), json!({"unit": u.name(), "id": id})),
                Err(p) => ctx.violation(&format!("lookup:or-default:{}", panic_sig(&p)), &p.msg, json!({"id": id})),
            }
            // decode by this id through both codecs
            for (mi, x) in MAGNITUDES.iter().enumerate() {
                let x = *x;
                if is_zinc_unit_text(id) && !(id.starts_with(['e', 'E']) && false) {
                    let text = format!("{}{}", x, id);
                    ctx.eval("zinc-decode-by-id", crate::prng::mix(&[crate::prng::hash_str(id), mi as u64, 1]), true);
                    match catch(|| from_str(&text)) {
                        Ok(Ok(v)) => match num_of(&v) {
                            Some(n) if n.unit.is_some_and(|g| same(g, u)) && n.value.to_bits() == x.to_bits() => {}
                            other => ctx.violation("zinc:decode-by-id", &format!("{text:?} decodes to {:?}, expected {x} with unit {}", other.map(|n| (n.value, n.unit.map(|u| u.name().to_string()))), u.name()), json!({"text": text, "id_index": k})),
                        },
                        Ok(Err(e)) => ctx.violation("zinc:decode-by-id-rejected", &format!("{text:?} rejected: {e}"), json!({"text": text, "unit": u.name()})),
                        Err(p) => ctx.violation(&format!("zinc:{}", panic_sig(&p)), &p.msg, json!({"text": text})),
                    }
                    // the same number followed by ',' / ' ' / '}' / newline: element of a list, tag of a dict, cell of a grid
                    if (1..=3).contains(&mi) {
                        let ctext = match mi {
                            1 => format!("[{text},{text}]"),
                            2 => format!("{{a:{text} b:{text}}}"),
                            _ => format!("ver:\"3.0\"\na,b\n{text},{text}\n"),
                        };
                        ctx.eval("zinc-decode-by-id-in-container", crate::prng::mix(&[crate::prng::hash_str(id), mi as u64, 7]), true);
                        let nums = |v: &Value| -> Vec<Number> {
                            let of = |d: &libhaystack::val::Dict| d.iter().filter_map(|(_, v)| num_of(v)).collect::<Vec<_>>();
                            match v {
                                Value::List(l) => l.iter().filter_map(|v| num_of(v)).collect(),
                                Value::Dict(d) => of(d),
                                Value::Grid(g) => g.rows.iter().flat_map(|r| of(r)).collect(),
                                _ => vec![],
                            }
                        };
                        match catch(|| from_str(&ctext)) {
                            Ok(Ok(v)) => {
                                let ns = nums(&v);
                                if ns.len() != 2 || !ns.iter().all(|n| n.unit.is_some_and(|g| same(g, u)) && n.value.to_bits() == x.to_bits()) {
                                    ctx.violation("zinc:decode-by-id-in-container", &format!("{ctext:?} decodes to {}", crate::ctx::truncate(&crate::bridge::observe(&v).show(), 200)), json!({"text": ctext, "unit": u.name()}));
                                }
                            }
                            Ok(Err(e)) => ctx.violation("zinc:decode-by-id-in-container-rejected", &format!("{ctext:?} rejected: {e}"), json!({"text": ctext, "unit": u.name()})),
                            Err(p) => ctx.violation(&format!("zinc:{}", panic_sig(&p)), &p.msg, json!({"text": ctext})),
                        }
                    }
                } else {
                    ctx.stratum("id-not-zinc-spellable");
                }
                let doc = json!({"_kind": "number", "val": x, "unit": id}).to_string();
                ctx.eval("hayson-decode-by-id", crate::prng::mix(&[crate::prng::hash_str(id), mi as u64, 2]), true);
                match catch(|| serde_json::from_str::<Value>(&doc)) {
                    Ok(Ok(v)) => match num_of(&v) {
                        Some(n) if n.unit.is_some_and(|g| same(g, u)) && n.value.to_bits() == x.to_bits() => {}
                        other => ctx.violation("hayson:decode-by-id", &format!("{doc} decodes to {:?}", other.map(|n| (n.value, n.unit.map(|u| u.name().to_string())))), json!({"doc": doc})),
                    },
                    Ok(Err(e)) => ctx.violation("hayson:decode-by-id-rejected", &format!("{doc} rejected: {e}"), json!({"doc": doc})),
                    Err(p) => ctx.violation(&format!("hayson:{}", panic_sig(&p)), &p.msg, json!({"doc": doc})),
                }
            }
        }
        // encode -> decode keeps unit and value, both codecs; plus reference exponent spellings
        let mut rng = ctx.case_rng("unit", ui as u64);
        for (mi, x) in MAGNITUDES.iter().enumerate() {
            let v = Value::make_number_unit(*x, u);
            ctx.eval("roundtrip", crate::prng::mix(&[crate::prng::hash_str(u.name()), mi as u64, 3]), true);
            // the streaming encoder into a sink that takes 1-3 bytes per write() writes the same text
            let sink = catch(|| {
                let mut w = crate::readers::ShortWriter::new(1 + mi % 3);
                libhaystack::encoding::zinc::encode::ToZinc::to_zinc(&v, &mut w).ok().map(|_| w.out)
            });
            match (&sink, to_zinc_string(&v)) {
                (Ok(Some(bytes)), Ok(t)) if *bytes == t.as_bytes() => {}
                (Ok(got), Ok(t)) => ctx.violation("zinc:short-write-sink-differs", &format!("{} {}: to_zinc into a short-write sink gives {:?}, the buffered text is {t:?}", x, u.name(), got.as_ref().map(|b| String::from_utf8_lossy(b).to_string())), json!({"zinc": t})),
                (Err(p), _) => ctx.violation(&format!("zinc:{}", panic_sig(p)), &p.msg, json!({})),
                _ => {}
            }
            let z = catch(|| to_zinc_string(&v).ok().and_then(|t| from_str(&t).ok().map(|b| (t, b))));
            match z {
                Ok(Some((t, b))) => match num_of(&b) {
                    Some(n) if n.unit.is_some_and(|g| same(g, u)) && n.value.to_bits() == x.to_bits() => {
                        if ctx.wants_sample("zinc-unit") && ui % 37 == 3 {
                            ctx.sample("zinc-unit", json!({"unit": u.name(), "ids": u.ids, "zinc": t}));
                        }
                    }
                    _ => ctx.violation("zinc:roundtrip-unit", &format!("{} {} -> {t:?} -> {:?}", x, u.name(), crate::bridge::observe(&b).show()), json!({"zinc": t})),
                },
                Ok(None) => ctx.violation("zinc:roundtrip-failed", &format!("{} {} does not survive Zinc", x, u.name()), json!({})),
                Err(p) => ctx.violation(&format!("zinc:{}", panic_sig(&p)), &p.msg, json!({})),
            }
            let j = catch(|| serde_json::to_string(&v).ok().and_then(|t| serde_json::from_str::<Value>(&t).ok().map(|b| (t, b))));
            match j {
                Ok(Some((t, b))) => match num_of(&b) {
                    Some(n) if n.unit.is_some_and(|g| same(g, u)) && n.value.to_bits() == x.to_bits() => {}
                    _ => ctx.violation("hayson:roundtrip-unit", &format!("{} {} -> {t} -> {:?}", x, u.name(), crate::bridge::observe(&b).show()), json!({"json": t})),
                },
                Ok(None) => ctx.violation("hayson:roundtrip-failed", &format!("{} {} does not survive Hayson", x, u.name()), json!({})),
                Err(p) => ctx.violation(&format!("hayson:{}", panic_sig(&p)), &p.msg, json!({})),
            }
            // reference spellings (exponent / separators) of the same number with the unit symbol
            if x.is_finite() {
                let mut w = Writer::new(&mut rng, true);
                w.number(*x, Some(u.symbol()));
                let text = w.out;
                ctx.eval("zinc-ref-spelling", crate::prng::hash_str(&text), true);
                match catch(|| from_str(&text)) {
                    Ok(Ok(b)) => match num_of(&b) {
                        Some(n) if n.unit.is_some_and(|g| same(g, u)) && n.value.to_bits() == x.to_bits() => {}
                        _ => ctx.violation("zinc:ref-spelling", &format!("{text:?} decodes to {}", crate::bridge::observe(&b).show()), json!({"text": text})),
                    },
                    Ok(Err(e)) => ctx.violation("zinc:ref-spelling-rejected", &format!("{text:?} rejected: {e}"), json!({"text": text})),
                    Err(p) => ctx.violation(&format!("zinc:{}", panic_sig(&p)), &p.msg, json!({"text": text})),
                }
            }
        }
    }
    // non-identifiers: random strings and near misses must give None
    let ids: Vec<&str> = {
        let mut v: Vec<&str> = all_ids.iter().cloned().collect();
        v.sort();
        v
    };
    let n = ctx.n(8_000, 200_000);
    for i in 0..n {
        if !ctx.begin("non-id", i) {
            continue;
        }
        let mut rng = ctx.case_rng("non-id", i);
        let s = near_miss(&mut rng, &ids);
        if all_ids.contains(s.as_str()) {
            continue;
        }
        ctx.eval("non-id", crate::prng::hash_str(&s), true);
        match catch(|| get_unit(&s)) {
            Ok(None) => {}
            Ok(Some(u)) => ctx.violation("lookup:non-id-found", &format!("get_unit({s:?}) returns {} although no unit lists that identifier", u.name()), json!({"string": s})),
            Err(p) => ctx.violation(&format!("lookup:{}", panic_sig(&p)), &p.msg, json!({"string": s})),
        }
        // ... and the defaulting lookup gives the default (nameless) unit, not some real one
        match catch(|| libhaystack::units::get_unit_or_default(&s)) {
            Ok(u) if u.ids.is_empty() => {}
            Ok(u) => ctx.violation("lookup:non-id-found", &format!("get_unit_or_default({s:?}) returns {} although no unit lists that identifier", u.name()), json!({"string": s})),
            Err(p) => ctx.violation(&format!("lookup:or-default:{}", panic_sig(&p)), &p.msg, json!({"string": s})),
        }
        // ... and neither decoder resolves it to a unit through some other route
        let doc = json!({"_kind": "number", "val": 1.5, "unit": s}).to_string();
        let ztext = format!("1.5{s}");
        // (Zinc only when the whole string is made of unit characters: otherwise the unit token ends earlier and the rest
        // of the text is not part of the number)
        // ... and a leading '_' belongs to the digits ("1.5_" is 1.5)
        let zinc_applicable = is_zinc_unit_text(&s) && !s.starts_with('_');
        for (how, r) in [("Hayson", catch(|| serde_json::from_str::<Value>(&doc).ok())), ("Zinc", catch(|| if zinc_applicable { from_str(&ztext).ok() } else { None }))] {
            match r {
                Ok(Some(v)) => {
                    if let Some(n) = num_of(&v) {
                        if let Some(u) = n.unit {
                            if !u.ids.is_empty() && !u.ids.iter().any(|id| id == &s) && n.value == 1.5 {
                                ctx.violation("decode:non-id-resolved", &format!("{how} decodes 1.5 with unit text {s:?} to the unit {} although that unit does not list it", u.name()), json!({"string": s}));
                            }
                        }
                    }
                }
                Ok(None) => {}
                Err(p) => ctx.violation(&format!("decode:{}", panic_sig(&p)), &p.msg, json!({"string": s})),
            }
        }
        if ctx.wants_sample("non-id") && i > 5 {
            ctx.sample("non-id", json!(s));
        }
    }
}

fn near_miss(rng: &mut Rng, ids: &[&str]) -> String {
    let base = rng.pick(ids).to_string();
    let chars: Vec<char> = base.chars().collect();
    match rng.below(13) {
        // look-alike characters: micro sign / Greek mu, ohm sign / Greek omega, degree / ring / masculine ordinal, superscripts
        9 => {
            const TWINS: [(char, char); 10] = [('\u{b5}', '\u{3bc}'), ('\u{3bc}', '\u{b5}'), ('\u{2126}', '\u{3a9}'), ('\u{3a9}', '\u{2126}'), ('\u{b0}', '\u{ba}'), ('\u{b0}', '\u{2da}'), ('\u{b2}', '2'), ('\u{b3}', '3'), ('/', '\u{2215}'), ('_', ' ')];
            let (from, to) = *rng.pick(&TWINS);
            if base.contains(from) { base.replace(from, &to.to_string()) } else { format!("{base}{to}") }
        }
        // two identifiers combined the way a quotient or product might be spelled
        10 => format!("{}/{}", rng.pick(ids), rng.pick(ids)),
        11 => format!("{}_per_{}", rng.pick(ids), rng.pick(ids)),
        12 => format!("{}*{}", rng.pick(ids), rng.pick(ids)),
        0 => crate::gen::gen_string(rng),
        1 => base.to_uppercase(),
        2 => base.to_lowercase(),
        3 => format!(" {base}"),
        4 => format!("{base} "),
        5 if chars.len() > 1 => chars[..chars.len() - 1].iter().collect(),
        6 if chars.len() > 1 => chars[1..].iter().collect(),
        7 => format!("{base}s"),
        _ => {
            let mut c = chars.clone();
            if !c.is_empty() {
                let k = rng.below(c.len());
                c[k] = if c[k].is_ascii_lowercase() { c[k].to_ascii_uppercase() } else { 'x' };
            }
            c.into_iter().collect()
        }
    }
}

// ---------------------------------------------------------------------------------------------

fn rel_close(a: f64, b: f64, rel: f64) -> bool {
    if a == b {
        return true;
    }
    if !a.is_finite() || !b.is_finite() {
        return a.is_nan() && b.is_nan() || a == b;
    }
    (a - b).abs() <= rel * a.abs().max(b.abs()) + f64::MIN_POSITIVE
}

fn is_byte_name(n: &str) -> bool {
    matches!(n, "byte" | "kilobyte" | "megabyte" | "gigabyte" | "terabyte" | "petabyte")
}

/// the dimension exponents, read field by field (the harness does its own arithmetic on them)
fn dim_vec(d: &libhaystack::units::unit_dimension::UnitDimensions) -> [i32; 7] {
    [d.kg as i32, d.m as i32, d.sec as i32, d.k as i32, d.a as i32, d.mol as i32, d.cd as i32]
}

/// a*b and a/b: when they yield a unit it is a database unit whose dimension vector is the sum / difference and whose
/// scale is the product / quotient. Returns (products found, quotients found).
fn check_algebra(ctx: &mut Ctx, a: &'static Unit, b: &'static Unit, known: &HashSet<usize>, history: &str) -> (u64, u64) {
    let (mut muls_ok, mut divs_ok) = (0u64, 0u64);
    for (is_mul, res) in [(true, catch(|| a * b)), (false, catch(|| a / b))] {
        let opname = if is_mul { "mul" } else { "div" };
        match res {
            Err(p) => ctx.violation(&format!("unit-{opname}:{}", panic_sig(&p)), &p.msg, json!({"a": a.name(), "b": b.name()})),
            Ok(Err(_)) => {}
            Ok(Ok(u)) => {
                if is_mul {
                    muls_ok += 1
                } else {
                    divs_ok += 1
                }
                if !known.contains(&(u as *const Unit as usize)) {
                    ctx.violation(&format!("unit-{opname}:not-a-database-unit"), &format!("{} {opname} {} yields a unit that is not in the database", a.name(), b.name()), json!({}));
                    continue;
                }
                match (a.dimensions, b.dimensions, u.dimensions) {
                    (Some(da), Some(db), Some(du)) => {
                        let (va, vb, vu) = (dim_vec(&da), dim_vec(&db), dim_vec(&du));
                        let want: Vec<i32> = (0..7).map(|k| if is_mul { va[k] + vb[k] } else { va[k] - vb[k] }).collect();
                        if vu.to_vec() != want {
                            ctx.violation(&format!("unit-{opname}:wrong-dimension"), &format!("{} {opname} {} = {} whose dimension {:?} is not the {} {:?}{history}", a.name(), b.name(), u.name(), vu, if is_mul { "sum" } else { "difference" }, want), json!({}));
                        }
                        let want_scale = if is_mul { a.scale * b.scale } else { a.scale / b.scale };
                        // the database's own precision: scales agree to 1e-3 relative (e.g. mile/hour)
                        if !rel_close(u.scale, want_scale, 1.5e-3) {
                            ctx.violation(&format!("unit-{opname}:wrong-scale"), &format!("{} {opname} {} = {} with scale {} but the {} of the scales is {}{history}", a.name(), b.name(), u.name(), u.scale, if is_mul { "product" } else { "quotient" }, want_scale), json!({}));
                        }
                    }
                    _ => ctx.violation(&format!("unit-{opname}:dimensionless-operand"), &format!("{} {opname} {} yields {} although an operand has no dimension vector", a.name(), b.name(), u.name()), json!({})),
                }
            }
        }
    }
    (muls_ok, divs_ok)
}

pub fn run_c16(ctx: &mut Ctx) {
    let units = all_units();
    let n = units.len();
    let mags = [1.0, -40.0, 0.001, 98.6, 1e6];
    let known: HashSet<usize> = units.iter().map(|u| *u as *const Unit as usize).collect();
    let mut convertible = 0u64;
    let mut muls_ok = 0u64;
    let mut divs_ok = 0u64;
    // a different call history in every worker process before the exhaustive pass (state carried between calls, e.g. a
    // memo filled by the first caller, shows up as a wrong answer later): first the pairs whose product or quotient is
    // one particular unit with a single identifier (one such unit per shard), then 2,000 random pairs in random order
    if ctx.begin("history-warmup", 0) {
        let mut rng = ctx.case_rng("history-warmup", ctx.shard);
        let single: Vec<&'static Unit> = units.iter().copied().filter(|u| u.ids.len() == 1 && u.dimensions.is_some()).collect();
        if !single.is_empty() {
            let t = single[(ctx.shard as usize + ctx.seed as usize) % single.len()];
            let vt = dim_vec(&t.dimensions.unwrap());
            let mut asked = 0;
            'outer: for a in units.iter().copied() {
                for b in units.iter().copied() {
                    if let (Some(da), Some(db)) = (a.dimensions, b.dimensions) {
                        let (va, vb) = (dim_vec(&da), dim_vec(&db));
                        let is_prod = (0..7).all(|k| va[k] + vb[k] == vt[k]) && rel_close(a.scale * b.scale, t.scale, 1e-6);
                        let is_quot = (0..7).all(|k| va[k] - vb[k] == vt[k]) && rel_close(a.scale / b.scale, t.scale, 1e-6);
                        if is_prod || is_quot {
                            check_algebra(ctx, a, b, &known, " (first calls of the process)");
                            asked += 1;
                            if asked >= 8 {
                                break 'outer;
                            }
                        }
                    }
                }
            }
            ctx.note_add("warmup_pairs_resolving_to_a_single_id_unit", asked);
        }
        for _ in 0..2_000 {
            let (a, b) = (units[rng.below(n)], units[rng.below(n)]);
            check_algebra(ctx, a, b, &known, " (random early history)");
        }
        ctx.stratum("history-warmup");
    }
    // exhaustive over ordered pairs; shards split the first index
    for i in 0..n {
        if (i as u64) % ctx.nshards != ctx.shard {
            continue;
        }
        if !ctx.begin("pairs", i as u64) {
            continue;
        }
        let a = units[i];
        for j in 0..n {
            let b = units[j];
            // (compared exponent by exponent by the harness; byte units are the ones named byte, kilobyte ... petabyte)
            let same_dim = a.dimensions.as_ref().map(dim_vec) == b.dimensions.as_ref().map(dim_vec) || (is_byte_name(a.name()) && is_byte_name(b.name()));
            ctx.eval("convert-pair", (i * n + j) as u64, i != j);
            for x in mags {
                match catch(|| a.convert_to(x, b)) {
                    Err(p) => ctx.violation(&format!("convert:{}", panic_sig(&p)), &p.msg, json!({"from": a.name(), "to": b.name()})),
                    Ok(Ok(y)) => {
                        if !same_dim {
                            ctx.violation("convert:succeeds-across-dimensions", &format!("{} -> {} converts although their dimensions differ", a.name(), b.name()), json!({"from": a.name(), "to": b.name(), "x": x, "y": y}));
                            break;
                        }
                        let expect = (x * a.scale + a.offset - b.offset) / b.scale;
                        if !rel_close(y, expect, 1e-12) {
                            ctx.violation("convert:wrong-value", &format!("{x} {} -> {} gives {y}, the physical conversion is {expect}", a.name(), b.name()), json!({"from": a.name(), "to": b.name(), "x": x, "got": y, "expected": expect}));
                            break;
                        }
                        // and back
                        match catch(|| b.convert_to(y, a)) {
                            Ok(Ok(back)) => {
                                let tol = 1e-9 * x.abs().max((a.offset / a.scale).abs()).max((b.offset / a.scale).abs()).max(1e-300);
                                if (back - x).abs() > tol {
                                    ctx.violation("convert:back-conversion", &format!("{x} {} -> {} -> back gives {back}", a.name(), b.name()), json!({"from": a.name(), "to": b.name()}));
                                    break;
                                }
                            }
                            Ok(Err(e)) => {
                                ctx.violation("convert:asymmetric", &format!("{} -> {} converts but the reverse fails: {e}", a.name(), b.name()), json!({}));
                                break;
                            }
                            Err(p) => ctx.violation(&format!("convert:{}", panic_sig(&p)), &p.msg, json!({})),
                        }
                        if x == 1.0 {
                            convertible += 1;
                        }
                        if x == 98.6 && i != j && ctx.wants_sample("convert") {
                            ctx.sample("convert", json!({"from": a.name(), "to": b.name(), "x": x, "converted": y, "formula": expect}));
                        }
                    }
                    Ok(Err(_)) => {
                        if same_dim {
                            ctx.violation("convert:fails-within-dimension", &format!("{} -> {} fails although both measure the same dimension", a.name(), b.name()), json!({"from": a.name(), "to": b.name()}));
                            break;
                        }
                    }
                }
            }
            // magnitudes that are not numbers in the ordinary sense: success or failure must still depend on the dimensions only
            for x in [f64::NAN, f64::INFINITY, f64::NEG_INFINITY, 0.0, -0.0, f64::MAX, f64::MIN_POSITIVE] {
                match catch(|| a.convert_to(x, b)) {
                    Err(p) => ctx.violation(&format!("convert:{}", panic_sig(&p)), &p.msg, json!({"from": a.name(), "to": b.name(), "x": format!("{x}")})),
                    Ok(Ok(_)) if !same_dim => {
                        ctx.violation("convert:succeeds-across-dimensions", &format!("{x} {} -> {} converts although their dimensions differ", a.name(), b.name()), json!({"from": a.name(), "to": b.name()}));
                        break;
                    }
                    Ok(Err(_)) if same_dim => {
                        ctx.violation("convert:fails-within-dimension", &format!("{x} {} -> {} fails although both measure the same dimension", a.name(), b.name()), json!({"from": a.name(), "to": b.name()}));
                        break;
                    }
                    _ => {}
                }
            }
            // units with different offsets: a quantity whose image lies within a millionth of the target's zero point
            if same_dim && a.offset != b.offset && a.dimensions.is_some() {
                for eps in [7e-7, -3e-7, 9e-5] {
                    let x = (b.offset - a.offset) / a.scale + eps * b.scale / a.scale;
                    let expect = (x * a.scale + a.offset - b.offset) / b.scale;
                    let tol = 1e-9 * (x * a.scale).abs().max(a.offset.abs()).max(b.offset.abs()) / b.scale.abs();
                    match catch(|| a.convert_to(x, b)) {
                        Ok(Ok(y)) if (y - expect).abs() <= tol => {}
                        Ok(Ok(y)) => ctx.violation("convert:wrong-value-near-zero", &format!("{x} {} -> {} gives {y}, the physical conversion is {expect} (tolerance {tol})", a.name(), b.name()), json!({"from": a.name(), "to": b.name()})),
                        Ok(Err(e)) => ctx.violation("convert:fails-within-dimension", &format!("{x} {} -> {} fails: {e}", a.name(), b.name()), json!({})),
                        Err(p) => ctx.violation(&format!("convert:{}", panic_sig(&p)), &p.msg, json!({})),
                    }
                    ctx.stratum("convert:near-target-zero");
                }
            }
            // unit algebra
            let (mo, dv) = check_algebra(ctx, a, b, &known, "");
            muls_ok += mo;
            divs_ok += dv;
        }
    }
    // the unit algebra from eight threads at once (a memo or "last query" slot shared between callers shows up here)
    if ctx.begin("algebra-threads", 0) {
        let barrier = std::sync::Barrier::new(8);
        let seed = crate::prng::mix(&[ctx.seed, ctx.shard, 0xA16]);
        let known = &known;
        // the answers of this thread alone, for a fixed set of pairs: under concurrency every pair must get the same
        // answer (the same unit, or the same refusal) - a refusal that appears only under load is a wrong answer too
        let mut prng = Rng::new(crate::prng::mix(&[seed, 99]));
        let fixed: Vec<(usize, usize)> = (0..3_000).map(|_| (prng.below(n), prng.below(n))).collect();
        let answer = |a: &'static Unit, b: &'static Unit, is_mul: bool| -> Option<usize> {
            let r = if is_mul { a * b } else { a / b };
            r.ok().map(|u| u as *const Unit as usize)
        };
        let alone: Vec<(Option<usize>, Option<usize>)> = fixed.iter().map(|(i, j)| (answer(units[*i], units[*j], true), answer(units[*i], units[*j], false))).collect();
        let (fixed, alone) = (&fixed, &alone);
        let bad: Vec<String> = std::thread::scope(|s| {
            let hs: Vec<_> = (0..8u64)
                .map(|t| {
                    let barrier = &barrier;
                    s.spawn(move || {
                        let mut rng = Rng::new(crate::prng::mix(&[seed, t]));
                        let mut bad = Vec::new();
                        barrier.wait();
                        // each thread walks the fixed pairs from a different starting point
                        for step in 0..fixed.len() {
                            let k = (step + t as usize * 371) % fixed.len();
                            let (i, j) = fixed[k];
                            for is_mul in [true, false] {
                                let got = catch(|| { let r = if is_mul { units[i] * units[j] } else { units[i] / units[j] }; r.ok().map(|u| u as *const Unit as usize) }).unwrap_or(Some(usize::MAX));
                                let want = if is_mul { alone[k].0 } else { alone[k].1 };
                                if got != want {
                                    bad.push(format!("{} {} {}: one thread alone gets {}, with 8 threads it gets {}", units[i].name(), if is_mul { '*' } else { '/' }, units[j].name(), if want.is_some() { "a unit" } else { "a refusal" }, if got == Some(usize::MAX) { "a panic" } else if got.is_some() { "a (different) unit" } else { "a refusal" }));
                                }
                            }
                        }
                        // ... then hammers a handful of pairs that do have an answer, in a tight loop (any shared "last
                        // answer" slot is overwritten and read all the time)
                        let hot: Vec<usize> = (0..fixed.len()).filter(|k| alone[*k].0.is_some() || alone[*k].1.is_some()).take(12).collect();
                        if !hot.is_empty() {
                            for step in 0..120_000usize {
                                let k = hot[(step * 7 + t as usize * 5) % hot.len()];
                                let (i, j) = fixed[k];
                                let is_mul = alone[k].0.is_some();
                                let got = catch(|| { let r = if is_mul { units[i] * units[j] } else { units[i] / units[j] }; r.ok().map(|u| u as *const Unit as usize) }).unwrap_or(Some(usize::MAX));
                                let want = if is_mul { alone[k].0 } else { alone[k].1 };
                                if got != want {
                                    bad.push(format!("{} {} {} (asked over and over next to other products): alone it is {}, now {}", units[i].name(), if is_mul { '*' } else { '/' }, units[j].name(), if want.is_some() { "a unit" } else { "a refusal" }, if got == Some(usize::MAX) { "a panic" } else if got.is_some() { "a different unit" } else { "a refusal" }));
                                    if bad.len() > 20 {
                                        break;
                                    }
                                }
                            }
                        }
                        for _ in 0..20_000 {
                            let (a, b) = (units[rng.below(n)], units[rng.below(n)]);
                            for is_mul in [true, false] {
                                let r = catch(|| if is_mul { a * b } else { a / b });
                                match r {
                                    Err(p) => bad.push(format!("{} {} {} panics: {}", a.name(), if is_mul { '*' } else { '/' }, b.name(), p.msg)),
                                    Ok(Err(_)) => {}
                                    Ok(Ok(u)) => match (a.dimensions, b.dimensions, u.dimensions) {
                                        (Some(da), Some(db), Some(du)) if known.contains(&(u as *const Unit as usize)) => {
                                            let (va, vb, vu) = (dim_vec(&da), dim_vec(&db), dim_vec(&du));
                                            let dims_ok = (0..7).all(|k| vu[k] == if is_mul { va[k] + vb[k] } else { va[k] - vb[k] });
                                            let want_scale = if is_mul { a.scale * b.scale } else { a.scale / b.scale };
                                            if !dims_ok || !rel_close(u.scale, want_scale, 1.5e-3) {
                                                bad.push(format!("{} {} {} = {} (dimension ok: {dims_ok}, scale {} vs {want_scale})", a.name(), if is_mul { '*' } else { '/' }, b.name(), u.name(), u.scale));
                                            }
                                        }
                                        _ => bad.push(format!("{} {} {} = {}: not a dimensioned database unit", a.name(), if is_mul { '*' } else { '/' }, b.name(), u.name())),
                                    },
                                }
                            }
                        }
                        bad
                    })
                })
                .collect();
            hs.into_iter().flat_map(|h| h.join().unwrap_or_default()).collect()
        });
        ctx.eval("algebra-threads", seed, true);
        ctx.evaluations += 8 * 40_000;
        for b in bad.iter().take(3) {
            ctx.violation("unit-algebra:wrong-under-concurrency", &format!("with 8 threads multiplying and dividing units at once: {b}"), json!({"failures": bad.len()}));
        }
    }
    ctx.note_add("convertible_ordered_pairs", convertible);
    ctx.note_add("unit_products_found", muls_ok);
    ctx.note_add("unit_quotients_found", divs_ok);
    // Number arithmetic over random pairs
    let cnt = ctx.n(20_000, 400_000);
    for i in 0..cnt {
        if !ctx.begin("number-arith", i) {
            continue;
        }
        let mut rng = ctx.case_rng("number-arith", i);
        let ua = if rng.chance(1, 5) { None } else { Some(units[rng.below(n)]) };
        let ub = match rng.below(5) {
            0 => None,
            1 | 2 => ua,
            _ => Some(units[rng.below(n)]),
        };
        let (x, y) = (crate::gen::gen_finite_f64(&mut rng), crate::gen::gen_finite_f64(&mut rng));
        let a = Number { value: x, unit: ua };
        let b = Number { value: y, unit: ub };
        ctx.eval("number-arith", crate::prng::mix(&[x.to_bits(), y.to_bits(), ua.map_or(0, |u| u as *const Unit as u64), ub.map_or(0, |u| u as *const Unit as u64)]), true);
        if ctx.wants_sample("number-arith") {
            ctx.sample("number-arith", json!({"a": format!("{x} {}", ua.map_or("", |u| u.name())), "b": format!("{y} {}", ub.map_or("", |u| u.name()))}));
        }
        let both = ua.is_some() && ub.is_some();
        let same_unit = match (ua, ub) {
            (Some(p), Some(q)) => same(p, q),
            (None, None) => true,
            _ => false,
        };
        for (name, res, val) in [("add", catch(|| a + b), x + y), ("sub", catch(|| a - b), x - y)] {
            match res {
                Err(p) => ctx.violation(&format!("number-{name}:{}", panic_sig(&p)), &p.msg, json!({})),
                Ok(Ok(r)) => {
                    if both && !same_unit {
                        ctx.violation(&format!("number-{name}:different-units-accepted"), &format!("{name} of {} and {} succeeds", ua.unwrap().name(), ub.unwrap().name()), json!({}));
                    } else if same_unit {
                        let keeps = match (r.unit, ua) {
                            (Some(p), Some(q)) => same(p, q),
                            (None, None) => true,
                            _ => false,
                        };
                        if !keeps {
                            ctx.violation(&format!("number-{name}:unit-not-kept"), "the common unit is not kept", json!({"unit": ua.map(|u| u.name().to_string())}));
                        }
                    } else {
                        ctx.dont_care("add/sub of a unit-less and a unit-carrying Number: which unit the result has is not stated");
                    }
                    if r.value.to_bits() != val.to_bits() && !(r.value.is_nan() && val.is_nan()) {
                        ctx.violation(&format!("number-{name}:wrong-value"), &format!("{x} {name} {y} gives {}", r.value), json!({}));
                    }
                }
                Ok(Err(_)) => {
                    if same_unit {
                        ctx.violation(&format!("number-{name}:same-unit-rejected"), "adding/subtracting Numbers with the same unit fails", json!({"unit": ua.map(|u| u.name().to_string())}));
                    }
                }
            }
        }
        for (name, res, val, uexp) in [("mul", catch(|| a * b), x * y, if both { Some(catch(|| ua.unwrap() * ub.unwrap())) } else { None }), ("div", catch(|| a / b), x / y, if both { Some(catch(|| ua.unwrap() / ub.unwrap())) } else { None })] {
            match res {
                Err(p) => ctx.violation(&format!("number-{name}:{}", panic_sig(&p)), &p.msg, json!({})),
                Ok(Ok(r)) => {
                    if r.value.to_bits() != val.to_bits() && !(r.value.is_nan() && val.is_nan()) {
                        ctx.violation(&format!("number-{name}:wrong-value"), &format!("{x} {name} {y} gives {}", r.value), json!({}));
                    }
                    if let Some(Ok(Ok(u))) = uexp {
                        if !r.unit.is_some_and(|g| same(g, u)) {
                            ctx.violation(&format!("number-{name}:unit-differs-from-unit-algebra"), "the result's unit is not the product/quotient unit", json!({}));
                        }
                    } else if let Some(Ok(Err(_))) = uexp {
                        ctx.violation(&format!("number-{name}:succeeds-without-unit"), "Number op succeeds although the unit op fails", json!({}));
                    }
                }
                Ok(Err(_)) => {
                    if let Some(Ok(Ok(_))) = uexp {
                        ctx.violation(&format!("number-{name}:fails-with-unit"), "Number op fails although the unit op succeeds", json!({}));
                    }
                    if !both {
                        ctx.violation(&format!("number-{name}:unitless-fails"), "Number op with a unit-less operand fails", json!({}));
                    }
                }
            }
        }
    }
    let _ = truncate;
}
