#![allow(dead_code)]
mod bridge;
mod ctx;
mod gen;
mod model;
mod prng;
mod shrink;
mod util;

mod mon_c01;
mod mon_c02;
mod mon_c03;
mod readers;
mod textgen;
mod mon_c04;
mod mon_c05;
mod refjson;
mod mon_c06;
mod mon_c07;
mod mon_c08;
mod mon_c09;
mod reffilter;
mod refzinc;
mod mon_c10;
mod mon_c11;
mod mon_c12;
mod mon_c13;
mod mon_c14;
mod refdefs;
mod mon_c15;
mod mon_c17;
mod mon_c19;
mod mon_c20;

use ctx::{Ctx, Tier};

fn usage() -> ! {
    eprintln!("usage: hsv <Cxx> [--tier quick|thorough] [--seed N] [--shard i/n] [--scale f] [--budget secs] [--only stream:index] [--resume stream:index] [--streams a,b] [--progress file] [--selftest name] [-v]");
    std::process::exit(2)
}

/// CPU seconds (user + system, all threads) this process has used, from /proc/self/stat.
fn process_cpu_seconds() -> Option<f64> {
    let s = std::fs::read_to_string("/proc/self/stat").ok()?;
    let rest = &s[s.rfind(')')? + 2..];
    let f: Vec<&str> = rest.split(' ').collect();
    // fields after the command: state(0) ... utime is the 14th field overall = index 11 here, stime index 12
    let ticks: f64 = f.get(11)?.parse::<f64>().ok()? + f.get(12)?.parse::<f64>().ok()?;
    Some(ticks / 100.0)
}

/// Bounded progress, measured in CPU time rather than wall-clock time: if one announced case keeps this process busy
/// for more than the limit (default 600 CPU-seconds; normal cases take micro- to milliseconds) without the next case
/// being announced, the case does not terminate in any practical sense. The monitor reports it as a violation of its
/// own (`hang:cpu-time:<stream>`), and leaves the process with exit code 98 so that the driver resumes after that
/// case. A process that is merely descheduled on a loaded machine burns no CPU and is never reported.
fn spawn_cpu_monitor(shard: u64) {
    if cfg!(miri) {
        return;
    }
    let limit: f64 = std::env::var("HSV_CASE_CPU_LIMIT").ok().and_then(|v| v.parse().ok()).unwrap_or(600.0);
    std::thread::Builder::new()
        .name("cpu-monitor".into())
        .spawn(move || {
            use std::sync::atomic::Ordering;
            let mut last = u64::MAX;
            let mut cpu0 = process_cpu_seconds().unwrap_or(0.0);
            loop {
                std::thread::sleep(std::time::Duration::from_millis(500));
                let seq = ctx::CASE_SEQ.load(Ordering::Relaxed);
                let Some(cpu) = process_cpu_seconds() else { return };
                if seq != last {
                    last = seq;
                    cpu0 = cpu;
                    continue;
                }
                let spent = cpu - cpu0;
                ctx::MAX_CASE_CPU_MS.fetch_max((spent * 1000.0) as u64, Ordering::Relaxed);
                if spent > limit {
                    let (stream, index) = ctx::CASE_NOW.lock().map(|c| c.clone()).unwrap_or_default();
                    let line = serde_json::json!({"sig": format!("hang:cpu-time:{stream}"),
                        "what": format!("case {stream}:{index} kept the worker busy for more than {limit} CPU-seconds without finishing (cases normally take milliseconds): it does not terminate"),
                        "stream": stream, "index": index, "shard": shard, "witness": {"cpu_seconds": spent}});
                    use std::io::Write;
                    println!("V {}", line);
                    let _ = std::io::stdout().flush();
                    std::process::exit(98);
                }
            }
        })
        .ok();
}

fn main() {
    let args: Vec<String> = std::env::args().collect();
    if args.len() < 2 {
        usage();
    }
    let prop = args[1].clone();
    if prop == "merge-fp" {
        // exact distinct count over the union of the shards' fingerprint dumps
        let mut all: Vec<u64> = Vec::new();
        for f in &args[2..] {
            if let Ok(b) = std::fs::read(f) {
                for c in b.chunks_exact(8) {
                    all.push(u64::from_le_bytes(c.try_into().unwrap()));
                }
            }
        }
        all.sort_unstable();
        all.dedup();
        println!("{}", all.len());
        return;
    }
    let mut tier = Tier::Quick;
    let mut seed = 1u64;
    let mut shard = 0u64;
    let mut nshards = 1u64;
    let mut i = 2;
    let mut opts: Vec<(String, String)> = Vec::new();
    let mut verbose = false;
    while i < args.len() {
        let a = args[i].as_str();
        if a == "-v" {
            verbose = true;
            i += 1;
            continue;
        }
        if !a.starts_with("--") || i + 1 >= args.len() {
            usage();
        }
        opts.push((a[2..].to_string(), args[i + 1].clone()));
        i += 2;
    }
    for (k, v) in &opts {
        match k.as_str() {
            "tier" => tier = if v == "thorough" { Tier::Thorough } else { Tier::Quick },
            "seed" => seed = v.parse().unwrap_or(1),
            "shard" => {
                let mut p = v.split('/');
                shard = p.next().and_then(|x| x.parse().ok()).unwrap_or(0);
                nshards = p.next().and_then(|x| x.parse().ok()).unwrap_or(1);
            }
            _ => {}
        }
    }
    let mut ctx = Ctx::new(&prop, tier, seed, shard, nshards);
    ctx.verbose = verbose;
    for (k, v) in &opts {
        match k.as_str() {
            "scale" => ctx.scale = v.parse().unwrap_or(1.0),
            "budget" => ctx.budget = std::time::Duration::from_secs_f64(v.parse().unwrap_or(3600.0)),
            "only" => {
                let (s, n) = v.rsplit_once(':').unwrap_or_else(|| usage());
                ctx.only = Some((s.to_string(), n.parse().unwrap_or(0)));
            }
            "resume" => {
                let (s, n) = v.rsplit_once(':').unwrap_or_else(|| usage());
                ctx.set_resume(s, n.parse().unwrap_or(0));
            }
            "streams" => ctx.streams = Some(v.split(',').map(|s| s.to_string()).collect()),
            "progress" => ctx.set_progress_file(v),
            "fpfile" => ctx.fp_file = Some(v.clone()),
            "selftest" => ctx.selftest = Some(v.clone()),
            _ => {}
        }
    }
    util::install_panic_hook();
    spawn_cpu_monitor(shard);
    match prop.as_str() {
        "C01" => mon_c01::run(&mut ctx),
        "C02" => mon_c02::run(&mut ctx),
        "C03" => mon_c03::run(&mut ctx),
        "C04" => mon_c04::run(&mut ctx),
        "C05" => mon_c05::run(&mut ctx),
        "C06" => mon_c06::run(&mut ctx),
        "C07" => mon_c07::run(&mut ctx),
        "C08" => mon_c08::run(&mut ctx),
        "C09" => mon_c09::run(&mut ctx),
        "C10" => mon_c10::run(&mut ctx),
        "C11" => mon_c11::run(&mut ctx),
        "C12" => mon_c12::run(&mut ctx),
        "C13" => mon_c13::run(&mut ctx),
        "C14" => mon_c14::run(&mut ctx),
        "C15" => mon_c15::run_c15(&mut ctx),
        "C16" => mon_c15::run_c16(&mut ctx),
        "C17" => mon_c17::run(&mut ctx, false),
        "C18" => mon_c17::run(&mut ctx, true),
        "C19" => mon_c19::run(&mut ctx),
        "C20" => mon_c20::run(&mut ctx),
        _ => {
            eprintln!("unknown property {prop}");
            std::process::exit(2);
        }
    }
    ctx.finish();
}
