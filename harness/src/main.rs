#![allow(dead_code)]
mod bridge;
mod ctx;
mod gen;
mod model;
mod prng;
mod shrink;
mod util;

mod mon_c01;
mod mon_c02;
mod mon_c03;
mod readers;
mod textgen;
mod mon_c04;
mod mon_c05;
mod refjson;
mod mon_c06;
mod mon_c07;
mod mon_c08;
mod mon_c09;
mod reffilter;
mod refzinc;
mod mon_c10;
mod mon_c11;
mod mon_c12;
mod mon_c13;
mod mon_c14;
mod refdefs;
mod mon_c15;
mod mon_c17;
mod mon_c19;
mod mon_c20;

use ctx::{Ctx, Tier};

fn usage() -> ! {
    eprintln!("usage: hsv <Cxx> [--tier quick|thorough] [--seed N] [--shard i/n] [--scale f] [--budget secs] [--only stream:index] [--resume stream:index] [--streams a,b] [--progress file] [--selftest name] [-v]");
    std::process::exit(2)
}

fn main() {
    let args: Vec<String> = std::env::args().collect();
    if args.len() < 2 {
        usage();
    }
    let prop = args[1].clone();
    if prop == "merge-fp" {
        // exact distinct count over the union of the shards' fingerprint dumps
        let mut all: Vec<u64> = Vec::new();
        for f in &args[2..] {
            if let Ok(b) = std::fs::read(f) {
                for c in b.chunks_exact(8) {
                    all.push(u64::from_le_bytes(c.try_into().unwrap()));
                }
            }
        }
        all.sort_unstable();
        all.dedup();
        println!("{}", all.len());
        return;
    }
    let mut tier = Tier::Quick;
    let mut seed = 1u64;
    let mut shard = 0u64;
    let mut nshards = 1u64;
    let mut i = 2;
    let mut opts: Vec<(String, String)> = Vec::new();
    let mut verbose = false;
    while i < args.len() {
        let a = args[i].as_str();
        if a == "-v" {
            verbose = true;
            i += 1;
            continue;
        }
        if !a.starts_with("--") || i + 1 >= args.len() {
            usage();
        }
        opts.push((a[2..].to_string(), args[i + 1].clone()));
        i += 2;
    }
    for (k, v) in &opts {
        match k.as_str() {
            "tier" => tier = if v == "thorough" { Tier::Thorough } else { Tier::Quick },
            "seed" => seed = v.parse().unwrap_or(1),
            "shard" => {
                let mut p = v.split('/');
                shard = p.next().and_then(|x| x.parse().ok()).unwrap_or(0);
                nshards = p.next().and_then(|x| x.parse().ok()).unwrap_or(1);
            }
            _ => {}
        }
    }
    let mut ctx = Ctx::new(&prop, tier, seed, shard, nshards);
    ctx.verbose = verbose;
    for (k, v) in &opts {
        match k.as_str() {
            "scale" => ctx.scale = v.parse().unwrap_or(1.0),
            "budget" => ctx.budget = std::time::Duration::from_secs_f64(v.parse().unwrap_or(3600.0)),
            "only" => {
                let (s, n) = v.rsplit_once(':').unwrap_or_else(|| usage());
                ctx.only = Some((s.to_string(), n.parse().unwrap_or(0)));
            }
            "resume" => {
                let (s, n) = v.rsplit_once(':').unwrap_or_else(|| usage());
                ctx.set_resume(s, n.parse().unwrap_or(0));
            }
            "streams" => ctx.streams = Some(v.split(',').map(|s| s.to_string()).collect()),
            "progress" => ctx.set_progress_file(v),
            "fpfile" => ctx.fp_file = Some(v.clone()),
            "selftest" => ctx.selftest = Some(v.clone()),
            _ => {}
        }
    }
    util::install_panic_hook();
    match prop.as_str() {
        "C01" => mon_c01::run(&mut ctx),
        "C02" => mon_c02::run(&mut ctx),
        "C03" => mon_c03::run(&mut ctx),
        "C04" => mon_c04::run(&mut ctx),
        "C05" => mon_c05::run(&mut ctx),
        "C06" => mon_c06::run(&mut ctx),
        "C07" => mon_c07::run(&mut ctx),
        "C08" => mon_c08::run(&mut ctx),
        "C09" => mon_c09::run(&mut ctx),
        "C10" => mon_c10::run(&mut ctx),
        "C11" => mon_c11::run(&mut ctx),
        "C12" => mon_c12::run(&mut ctx),
        "C13" => mon_c13::run(&mut ctx),
        "C14" => mon_c14::run(&mut ctx),
        "C15" => mon_c15::run_c15(&mut ctx),
        "C16" => mon_c15::run_c16(&mut ctx),
        "C17" => mon_c17::run(&mut ctx, false),
        "C18" => mon_c17::run(&mut ctx, true),
        "C19" => mon_c19::run(&mut ctx),
        "C20" => mon_c20::run(&mut ctx),
        _ => {
            eprintln!("unknown property {prop}");
            std::process::exit(2);
        }
    }
    ctx.finish();
}
