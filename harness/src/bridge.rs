//! MVal -> libhaystack::Value through public constructors, and observe(Value) -> MVal through
//! public fields / accessors. The harness's own zone and unit tables are used, never the
//! library's lookup functions, so expected values do not pass through the code under test.

use crate::model::*;
use chrono::{Datelike, NaiveDate, NaiveTime, Offset, TimeZone, Timelike};
use chrono_tz::Tz;
use libhaystack::units::Unit;
use libhaystack::val::*;
use std::collections::{BTreeMap, HashMap};
use std::sync::OnceLock;

/// All database units, deduplicated by address, in a deterministic order (by name).
pub fn all_units() -> &'static Vec<&'static Unit> {
    static U: OnceLock<Vec<&'static Unit>> = OnceLock::new();
    U.get_or_init(|| {
        let mut seen: HashMap<usize, &'static Unit> = HashMap::new();
        for u in libhaystack::units::units_generated::UNITS.values() {
            seen.insert(*u as *const Unit as usize, *u);
        }
        let mut v: Vec<&'static Unit> = seen.into_values().collect();
        v.sort_by(|a, b| a.ids.cmp(&b.ids));
        v
    })
}

pub fn unit_by_name(name: &str) -> Option<&'static Unit> {
    static M: OnceLock<HashMap<String, &'static Unit>> = OnceLock::new();
    M.get_or_init(|| {
        let mut m = HashMap::new();
        for u in all_units() {
            m.entry(u.name().to_string()).or_insert(*u);
        }
        m
    })
    .get(name)
    .copied()
}

/// The harness's own short-name rule: text after the first '/', the whole name if none.
pub fn short_zone_name(full: &str) -> &str {
    match full.find('/') {
        Some(i) => &full[i + 1..],
        None => full,
    }
}

/// Zones with an unambiguous city name (DESIGN Appendix C), sorted by full name.
pub fn unambiguous_zones() -> &'static Vec<Tz> {
    static Z: OnceLock<Vec<Tz>> = OnceLock::new();
    Z.get_or_init(|| {
        let all: Vec<Tz> = chrono_tz::TZ_VARIANTS.to_vec();
        let mut count: HashMap<&str, usize> = HashMap::new();
        for z in &all {
            *count.entry(short_zone_name(z.name())).or_insert(0) += 1;
        }
        let full: std::collections::HashSet<&str> = all.iter().map(|z| z.name()).collect();
        let mut v: Vec<Tz> = all
            .iter()
            .filter(|z| {
                let s = short_zone_name(z.name());
                count[s] == 1 && (s == z.name() || !full.contains(s))
            })
            .cloned()
            .collect();
        v.sort_by(|a, b| a.name().cmp(b.name()));
        v
    })
}

pub fn zone_by_short(short: &str) -> Option<Tz> {
    static M: OnceLock<HashMap<String, Tz>> = OnceLock::new();
    M.get_or_init(|| {
        let mut m = HashMap::new();
        for z in unambiguous_zones() {
            m.insert(short_zone_name(z.name()).to_string(), *z);
        }
        m
    })
    .get(short)
    .copied()
}

/// Build the model timestamp for an instant in a zone (offset from chrono-tz, the trusted zone DB).
pub fn mdatetime(tz: Tz, secs: i64, nanos: u32) -> MDateTime {
    let dt = tz.timestamp_opt(secs, nanos).unwrap();
    let tzname = if tz == chrono_tz::UTC { "UTC".to_string() } else { short_zone_name(tz.name()).to_string() };
    MDateTime { secs, nanos, offset: dt.offset().fix().local_minus_utc(), tz: tzname }
}

pub fn chrono_of(d: &MDateTime) -> Option<chrono::DateTime<Tz>> {
    let tz = if d.tz == "UTC" { chrono_tz::UTC } else { zone_by_short(&d.tz)? };
    tz.timestamp_opt(d.secs, d.nanos).single()
}

fn to_dict(d: &MDict) -> Dict {
    let mut m: BTreeMap<String, Value> = BTreeMap::new();
    for (k, v) in d {
        m.insert(k.clone(), to_value(v));
    }
    Dict::from(m)
}

pub fn to_grid(g: &MGrid, rng_bits: u64) -> Grid {
    // rng_bits picks whether an empty meta is presented as None or Some({}) (both legal, same value)
    let meta = if g.meta.is_empty() {
        if rng_bits & 1 == 0 {
            None
        } else {
            Some(Dict::new())
        }
    } else {
        Some(to_dict(&g.meta))
    };
    Grid {
        meta,
        columns: g
            .cols
            .iter()
            .enumerate()
            .map(|(i, c)| Column {
                name: c.name.clone(),
                meta: if c.meta.is_empty() {
                    if (rng_bits >> (1 + (i % 60))) & 1 == 0 {
                        None
                    } else {
                        Some(Dict::new())
                    }
                } else {
                    Some(to_dict(&c.meta))
                },
            })
            .collect(),
        rows: g.rows.iter().map(to_dict).collect(),
        ver: GRID_FORMAT_VERSION.to_string(),
    }
}

pub fn to_value(m: &MVal) -> Value {
    to_value_with(m, 0)
}

pub fn to_value_with(m: &MVal, bits: u64) -> Value {
    match m {
        MVal::Null => Value::Null,
        MVal::Remove => Value::make_remove(),
        MVal::Marker => Value::make_marker(),
        MVal::Na => Value::make_na(),
        MVal::Bool(b) => Value::make_bool(*b),
        MVal::Num(v, None) => Value::make_number(v.0),
        MVal::Num(v, Some(u)) => {
            let unit = unit_by_name(u).unwrap_or_else(|| panic!("harness: unknown unit {u}"));
            Value::make_number_unit(v.0, unit)
        }
        MVal::Str(s) => Value::make_str(s),
        MVal::Uri(s) => Value::make_uri(s),
        MVal::Ref(s, None) => Value::make_ref(s),
        MVal::Ref(s, Some(d)) => Value::make_ref_with_dis(s, d),
        MVal::Symbol(s) => Value::make_symbol(s),
        MVal::Date(y, mo, d) => Value::make_date(Date::from(NaiveDate::from_ymd_opt(*y, *mo, *d).expect("harness: bad date"))),
        MVal::Time(h, mi, s, n) => Value::make_time(Time::from(NaiveTime::from_hms_nano_opt(*h, *mi, *s, *n).expect("harness: bad time"))),
        MVal::DateTime(d) => Value::make_datetime(DateTime::from(chrono_of(d).expect("harness: bad datetime"))),
        MVal::Coord(a, b) => Value::make_coord_from(a.0, b.0),
        MVal::XStr(t, v) => Value::make_xstr_from(t, v),
        MVal::List(l) => Value::make_list(l.iter().map(|v| to_value_with(v, bits.rotate_left(7))).collect()),
        MVal::Dict(d) => Value::make_dict(to_dict(d)),
        MVal::Grid(g) => Value::make_grid(to_grid(g, bits)),
    }
}

pub fn observe_dict(d: &Dict) -> MDict {
    d.iter().map(|(k, v)| (k.clone(), observe(v))).collect()
}

pub fn observe_datetime(d: &DateTime) -> MDateTime {
    let tz: Tz = d.timezone();
    let name = if tz == chrono_tz::UTC { "UTC".to_string() } else { short_zone_name(tz.name()).to_string() };
    MDateTime {
        secs: d.timestamp(),
        nanos: d.timestamp_subsec_nanos(),
        offset: d.offset().fix().local_minus_utc(),
        tz: name,
    }
}

pub fn observe_number(n: &Number) -> MVal {
    let unit = match n.unit {
        Some(u) if !u.name().is_empty() => Some(u.name().to_string()),
        _ => None,
    };
    MVal::Num(F(n.value), unit)
}

pub fn observe_grid(g: &Grid) -> MGrid {
    // the `ver` field is the version of the text the grid was read from, not part of the value
    let meta = g.meta.as_ref().map(observe_dict).unwrap_or_default();
    MGrid {
        meta,
        cols: g
            .columns
            .iter()
            .map(|c| MCol { name: c.name.clone(), meta: c.meta.as_ref().map(observe_dict).unwrap_or_default() })
            .collect(),
        rows: g.rows.iter().map(observe_dict).collect(),
    }
}

pub fn observe(v: &Value) -> MVal {
    match v {
        Value::Null => MVal::Null,
        Value::Remove => MVal::Remove,
        Value::Marker => MVal::Marker,
        Value::Na => MVal::Na,
        Value::Bool(b) => MVal::Bool(b.value),
        Value::Number(n) => observe_number(n),
        Value::Str(s) => MVal::Str(s.value.clone()),
        Value::Uri(s) => MVal::Uri(s.value.clone()),
        Value::Ref(r) => MVal::Ref(r.value.clone(), r.dis.clone()),
        Value::Symbol(s) => MVal::Symbol(s.value.clone()),
        Value::Date(d) => MVal::Date(d.year(), d.month(), d.day()),
        Value::Time(t) => MVal::Time(t.hour(), t.minute(), t.second(), t.nanosecond()),
        Value::DateTime(d) => MVal::DateTime(observe_datetime(d)),
        Value::Coord(c) => MVal::Coord(F(c.lat), F(c.long)),
        Value::XStr(x) => MVal::XStr(x.r#type.clone(), x.value.clone()),
        Value::List(l) => MVal::List(l.iter().map(observe).collect()),
        Value::Dict(d) => MVal::Dict(observe_dict(d)),
        Value::Grid(g) => MVal::Grid(Box::new(observe_grid(g))),
    }
}
