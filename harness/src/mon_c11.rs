//! C11 — re-encoding decoded text is stable; stream decoding equals buffer decoding; the lazy grid
//! iterator hands out each row having consumed no further than the first token after it.

use crate::bridge::{observe, observe_dict, to_value_with};
use crate::ctx::{truncate, Ctx};
use crate::gen::gen_value;
use crate::model::{diff, MDict, MVal};
use crate::mon_c03::corpus_slices;
use crate::prng::Rng;
use crate::readers::{pick_chunking, Chunking, HostileReader};
use crate::refzinc::write_zinc;
use crate::shrink::shape;
use crate::textgen::{mutate, JSON_TOKENS, ZINC_TOKENS};
use crate::util::{catch, panic_sig, with_fuel};
use libhaystack::encoding::zinc::decode::parser::Parser;
use libhaystack::encoding::zinc::decode::{from_str, parse_grid, parse_grid_iterator};
use libhaystack::encoding::zinc::encode::to_zinc_string;
use libhaystack::val::{Dict, Value};
use serde_json::json;

pub const SIG_LMT: &str = "reencode:timestamp-in-zone-offset-with-seconds:instant-moves";

fn fuel(len: usize) -> u64 {
    64 * len as u64 + 4096
}

/// Why a decoded value is not well-formed by the C01 clause (None = it is). Used to tell decoder
/// leniency from encoder loss in the signature.
fn illformed_reason(m: &MVal) -> Option<&'static str> {
    let mut why = None;
    m.walk(&mut |n| match n {
        MVal::Uri(s) if s.chars().any(|c| c < ' ' || ('\u{7f}'..='\u{9f}').contains(&c)) => why = Some("uri-with-control-char"),
        MVal::Num(f, Some(_)) if !f.0.is_finite() => why = Some("non-finite-number-with-unit"),
        MVal::Grid(g) => {
            let mut names: Vec<&String> = g.cols.iter().map(|c| &c.name).collect();
            names.sort();
            let n = names.len();
            names.dedup();
            if names.len() != n {
                why = Some("duplicate-column-names");
            }
            if g.meta.contains_key("ver") {
                why = Some("grid-meta-tag-named-ver");
            }
            if g.meta.contains_key("\u{0}ver") {
                why = Some("grid-version-not-3.0");
            }
        }
        MVal::Symbol(s) if s.is_empty() => why = Some("empty-symbol"),
        MVal::XStr(t, _) if t == "C" || !t.chars().next().is_some_and(|c| c.is_ascii_uppercase()) => why = Some("xstr-type"),
        _ => {}
    });
    why
}

fn zinc_fixed_point(ctx: &mut Ctx, text: &str, class: &str) {
    let d1 = with_fuel(fuel(text.len()), || from_str(text));
    let v1 = match d1.result {
        Ok(Ok(v)) => v,
        _ => {
            ctx.stratum(&format!("zinc:{class}:not-accepted"));
            return;
        }
    };
    ctx.stratum(&format!("zinc:{class}:accepted"));
    let m1 = observe(&v1);
    ctx.eval(&format!("zinc-fixed-point:{class}"), crate::prng::hash_str(text), m1.size() > 1);
    let r = catch(|| to_zinc_string(&v1).map_err(|e| e.to_string()));
    let t2 = match r {
        Err(p) => {
            ctx.violation(&format!("zinc:reencode:{}", panic_sig(&p)), &p.msg, json!({"text": truncate(text, 800)}));
            return;
        }
        Ok(Err(e)) => {
            ctx.violation("zinc:reencode:encode-err", &format!("encoding a decoded value failed: {e}"), json!({"text": truncate(text, 800)}));
            return;
        }
        Ok(Ok(t)) => t,
    };
    let d2 = with_fuel(fuel(t2.len()), || from_str(&t2));
    let ill = illformed_reason(&m1).map(|w| format!("illformed-image:{w}")).unwrap_or_else(|| "wellformed-image".into());
    match d2.result {
        Ok(Ok(v2)) => {
            let m2 = observe(&v2);
            let m1n = crate::mon_c01::one_col_missing_as_null(&m1);
            if let Some(d) = diff(&m1, &m2) {
                if m1n == m2 && m1n != m1 {
                    ctx.violation(crate::mon_c01::SIG_ONE_COL, "a row of a one-column grid whose only cell is missing is written as N and read back as a Null cell", json!({"text": truncate(text, 400), "reencoded": truncate(&t2, 400)}));
                } else {
                    let fc = first_diff_class(&m1, &m2);
                    if fc == "datetime-zone-offset-with-seconds" {
                        ctx.violation(SIG_LMT, &format!("a timestamp whose zone offset is not a whole number of minutes (historical local mean time) moves by the dropped seconds when re-encoded: {d}"), json!({"text": truncate(text, 400), "reencoded": truncate(&t2, 400)}));
                    } else {
                        ctx.violation(&format!("zinc:not-a-fixed-point:{ill}:{fc}"), &format!("decode(encode(decode(t))) differs from decode(t): {d}"), json!({"text": truncate(text, 800), "reencoded": truncate(&t2, 800), "class": class}));
                    }
                }
            }
        }
        Ok(Err(e)) => ctx.violation(&format!("zinc:reencoded-text-rejected:{ill}:{}", shape_small(&m1)), &format!("the re-encoded text is rejected: {e}"), json!({"text": truncate(text, 800), "reencoded": truncate(&t2, 800), "class": class})),
        Err(p) => ctx.violation(&format!("zinc:redecode:{}", if p.fuel_site.is_some() { "hang".to_string() } else { panic_sig(&p) }), &p.msg, json!({"text": truncate(text, 800)})),
    }
}

fn shape_small(m: &MVal) -> String {
    let s = shape(m);
    if s.len() > 60 {
        m.kind_name().to_string()
    } else {
        s
    }
}

/// kind of the first differing node
fn first_diff_class(a: &MVal, b: &MVal) -> String {
    fn go(a: &MVal, b: &MVal) -> Option<String> {
        if a == b {
            return None;
        }
        match (a, b) {
            (MVal::List(x), MVal::List(y)) if x.len() == y.len() => x.iter().zip(y).find_map(|(p, q)| go(p, q)),
            (MVal::Dict(x), MVal::Dict(y)) if x.len() == y.len() && x.keys().eq(y.keys()) => x.values().zip(y.values()).find_map(|(p, q)| go(p, q)),
            (MVal::Grid(x), MVal::Grid(y)) => {
                if x.meta != y.meta {
                    return go(&MVal::Dict(x.meta.clone()), &MVal::Dict(y.meta.clone())).or(Some("grid-meta".into()));
                }
                if x.cols != y.cols {
                    if x.cols.len() == y.cols.len() && x.cols.iter().zip(&y.cols).all(|(p, q)| p.name == q.name) {
                        return x.cols.iter().zip(&y.cols).find_map(|(p, q)| go(&MVal::Dict(p.meta.clone()), &MVal::Dict(q.meta.clone()))).or(Some("grid-column-meta".into()));
                    }
                    return Some("grid-columns".into());
                }
                if x.rows.len() != y.rows.len() {
                    return Some("grid-row-count".into());
                }
                x.rows.iter().zip(&y.rows).find_map(|(p, q)| go(&MVal::Dict(p.clone()), &MVal::Dict(q.clone()))).or(Some("grid-rows".into()))
            }
            (MVal::DateTime(x), MVal::DateTime(y)) if x.offset % 60 != 0 || y.offset % 60 != 0 => Some("datetime-zone-offset-with-seconds".into()),
            _ => Some(format!("{}->{}", shape_small(a), shape_small(b))),
        }
    }
    go(a, b).unwrap_or_else(|| "?".into())
}

fn json_fixed_point(ctx: &mut Ctx, text: &str, class: &str) {
    let v1 = match catch(|| serde_json::from_str::<Value>(text)) {
        Ok(Ok(v)) => v,
        _ => {
            ctx.stratum(&format!("hayson:{class}:not-accepted"));
            return;
        }
    };
    ctx.stratum(&format!("hayson:{class}:accepted"));
    let m1 = observe(&v1);
    ctx.eval(&format!("hayson-fixed-point:{class}"), crate::prng::hash_str(text), m1.size() > 1);
    let t2 = match catch(|| serde_json::to_string(&v1).map_err(|e| e.to_string())) {
        Ok(Ok(t)) => t,
        Ok(Err(e)) => {
            ctx.violation("hayson:reencode:encode-err", &e, json!({"text": truncate(text, 800)}));
            return;
        }
        Err(p) => {
            ctx.violation(&format!("hayson:reencode:{}", panic_sig(&p)), &p.msg, json!({"text": truncate(text, 800)}));
            return;
        }
    };
    let ill = illformed_reason(&m1).map(|w| format!("illformed-image:{w}")).unwrap_or_else(|| "wellformed-image".into());
    match catch(|| serde_json::from_str::<Value>(&t2)) {
        Ok(Ok(v2)) => {
            let m2 = observe(&v2);
            if let Some(d) = diff(&m1, &m2) {
                let fc = first_diff_class(&m1, &m2);
                if fc == "datetime-zone-offset-with-seconds" {
                    ctx.violation(SIG_LMT, &format!("a timestamp whose zone offset is not a whole number of minutes (historical local mean time) moves by the dropped seconds when re-encoded: {d}"), json!({"text": truncate(text, 400), "reencoded": truncate(&t2, 400)}));
                } else {
                    ctx.violation(&format!("hayson:not-a-fixed-point:{ill}:{fc}"), &format!("decode(encode(decode(t))) differs from decode(t): {d}"), json!({"text": truncate(text, 800), "reencoded": truncate(&t2, 800), "class": class}));
                }
            }
        }
        Ok(Err(e)) => ctx.violation(&format!("hayson:reencoded-text-rejected:{ill}:{}", shape_small(&m1)), &format!("the re-encoded document is rejected: {e}"), json!({"text": truncate(text, 800), "reencoded": truncate(&t2, 800)})),
        Err(p) => ctx.violation(&format!("hayson:redecode:{}", panic_sig(&p)), &p.msg, json!({})),
    }
}

/// (2) stream == buffer, lazy rows == eager rows; also for the text with a byte order mark, a blank or a newline put in
/// front of it or behind it (whatever the buffer entry point makes of those, the reader entry points must make the same)
fn stream_equals_buffer(ctx: &mut Ctx, text: &str, rng: &mut Rng) {
    stream_equals_buffer_one(ctx, text, rng);
    if rng.chance(1, 5) && text.len() < 20_000 {
        let deco = match rng.below(6) {
            0 => format!("\u{feff}{text}"),
            1 => format!(" {text}"),
            2 => format!("\n{text}"),
            3 => format!("{text} "),
            4 => format!("{text}\u{feff}"),
            _ => format!("\u{feff}\u{feff}{text}\n"),
        };
        ctx.stratum("stream-vs-buffer:decorated");
        stream_equals_buffer_one(ctx, &deco, rng);
    }
}

fn stream_equals_buffer_one(ctx: &mut Ctx, text: &str, rng: &mut Rng) {
    let buf = match with_fuel(fuel(text.len()), || from_str(text)).result {
        Ok(r) => r,
        Err(_) => return,
    };
    let chunk = pick_chunking(rng);
    let interrupt = rng.chance(1, 3);
    ctx.eval("stream-vs-buffer", crate::prng::mix(&[crate::prng::hash_str(text), interrupt as u64, rng.next_u64() & 7]), true);
    ctx.stratum(&format!("reader:{}", format!("{chunk:?}").split('(').next().unwrap_or("")));
    let bytes = text.as_bytes();
    let streamed = with_fuel(fuel(text.len()), || {
        let mut r = HostileReader::new(bytes, chunk, interrupt, None);
        Parser::make(&mut r).and_then(|mut p| p.parse_value())
    })
    .result;
    match (&buf, &streamed) {
        (Ok(a), Ok(Ok(b))) => {
            if observe(a) != observe(b) {
                ctx.violation("stream:value-differs", &format!("reader {chunk:?} interrupt={interrupt}: {}", diff(&observe(a), &observe(b)).unwrap_or_default()), json!({"text": truncate(text, 800)}));
            }
        }
        (Err(_), Ok(Err(_))) => {}
        (Ok(_), Ok(Err(e))) => ctx.violation("stream:rejects-what-buffer-accepts", &format!("reader {chunk:?} interrupt={interrupt}: {e}"), json!({"text": truncate(text, 800)})),
        (Err(e), Ok(Ok(_))) => ctx.violation("stream:accepts-what-buffer-rejects", &format!("from_str says {e}"), json!({"text": truncate(text, 800)})),
        (_, Err(p)) => ctx.violation(&format!("stream:{}", if p.fuel_site.is_some() { "hang".to_string() } else { panic_sig(p) }), &p.msg, json!({"text": truncate(text, 800)})),
    }
    // lazy rows vs eager rows, for top-level grids
    if text.starts_with("ver:") {
        let eager = with_fuel(fuel(text.len()), || {
            let mut r = HostileReader::new(bytes, Chunking::Whole, false, None);
            Parser::make(&mut r).and_then(|mut p| parse_grid(&mut p))
        })
        .result;
        let lazy = with_fuel(fuel(text.len()), || {
            let mut r = HostileReader::new(bytes, chunk, interrupt, None);
            Parser::make(&mut r).and_then(|mut p| {
                let it = parse_grid_iterator(&mut p)?;
                let mut rows: Vec<Dict> = Vec::new();
                for row in it {
                    rows.push(row?);
                }
                Ok(rows)
            })
        })
        .result;
        ctx.eval("lazy-vs-eager", crate::prng::mix(&[crate::prng::hash_str(text), 9]), true);
        match (eager, lazy) {
            (Ok(Ok(g)), Ok(Ok(rows))) => {
                let a: Vec<MDict> = g.rows.iter().map(observe_dict).collect();
                let b: Vec<MDict> = rows.iter().map(observe_dict).collect();
                if a != b {
                    ctx.violation("lazy:rows-differ", &format!("the lazy iterator yields {} rows, parse_grid {} (or their contents/order differ)", b.len(), a.len()), json!({"text": truncate(text, 800)}));
                }
            }
            (Ok(Err(_)), Ok(Err(_))) => {}
            (Ok(Ok(_)), Ok(Err(e))) => ctx.violation("lazy:rejects-what-eager-accepts", &e.to_string(), json!({"text": truncate(text, 800)})),
            (Ok(Err(e)), Ok(Ok(_))) => ctx.violation("lazy:accepts-what-eager-rejects", &e.to_string(), json!({"text": truncate(text, 800)})),
            (Err(p), _) | (_, Err(p)) => ctx.violation(&format!("lazy:{}", if p.fuel_site.is_some() { "hang".to_string() } else { panic_sig(&p) }), &p.msg, json!({"text": truncate(text, 800)})),
        }
    }
}

/// (3) laziness: a grid whose rows are >= 64 bytes, read 1 byte at a time; at the moment row i is handed out
/// the reader must not have been asked past the first token after row i (+16 bytes lexer look-ahead slack).
fn laziness(ctx: &mut Ctx, rng: &mut Rng, idx: u64) {
    let ncols = 2 + rng.below(4);
    let nrows = 3 + rng.below(12);
    let mut text = String::from("ver:\"3.0\"\n");
    text.push_str(&(0..ncols).map(|c| format!("c{c}")).collect::<Vec<_>>().join(","));
    text.push('\n');
    let mut row_end: Vec<usize> = Vec::new(); // offset just past each row's newline
    let mut first_tok: Vec<usize> = Vec::new(); // length of the first token of each row
    for r in 0..nrows {
        let first = match rng.below(4) {
            0 => format!("{}", rng.below(100000)),
            1 => "M".to_string(),
            2 => format!("\"r{r}\""),
            _ => format!("@id{r}"),
        };
        first_tok.push(first.len());
        let mut cells = vec![first];
        for _ in 1..ncols {
            cells.push(match rng.below(3) {
                0 => format!("\"{}\"", "x".repeat(40 + rng.below(40))),
                1 => format!("`http://example.com/{}`", "p".repeat(40 + rng.below(20))),
                _ => format!("[{}]", (0..20).map(|k| k.to_string()).collect::<Vec<_>>().join(",")),
            });
        }
        text.push_str(&cells.join(","));
        text.push('\n');
        row_end.push(text.len());
    }
    first_tok.push(0);
    let bytes = text.as_bytes();
    let slack = 16usize;
    ctx.eval("laziness", crate::prng::mix(&[crate::prng::hash_str(&text), idx]), true);
    let res = catch(|| {
        let mut reader = HostileReader::new(bytes, Chunking::One, rng.coin(), None);
        let consumed = reader.consumed.clone();
        let mut p = Parser::make(&mut reader).map_err(|e| e.to_string())?;
        let it = parse_grid_iterator(&mut p).map_err(|e| e.to_string())?;
        let mut at_yield: Vec<usize> = Vec::new();
        for row in it {
            row.map_err(|e| e.to_string())?;
            at_yield.push(consumed.get());
        }
        Ok::<Vec<usize>, String>(at_yield)
    });
    match res {
        Err(p) => ctx.violation(&format!("laziness:{}", panic_sig(&p)), &p.msg, json!({})),
        Ok(Err(e)) => ctx.violation("laziness:rejected", &format!("the lazy iterator rejected a plain grid: {e}"), json!({"text": truncate(&text, 400)})),
        Ok(Ok(at_yield)) => {
            if at_yield.len() != nrows {
                ctx.violation("laziness:row-count", &format!("{} rows yielded, {} written", at_yield.len(), nrows), json!({}));
                return;
            }
            for (i, c) in at_yield.iter().enumerate() {
                let bound = (row_end[i] + first_tok[i + 1] + slack).min(bytes.len() + slack);
                let over = c.saturating_sub(row_end[i]);
                ctx.note_max("max_bytes_consumed_past_row_end_at_yield", over as f64);
                if *c > bound {
                    ctx.violation(
                        "laziness:read-ahead",
                        &format!("row {i} of {nrows} was handed out after the reader had been asked for {c} bytes; the row ends at byte {} and the first token after it is {} bytes long (overshoot {} bytes, rows are >= 64 bytes)", row_end[i], first_tok[i + 1], c - row_end[i]),
                        json!({"rows": nrows, "cols": ncols, "consumed_at_each_yield": at_yield, "row_ends": row_end}),
                    );
                    break;
                }
            }
            if ctx.wants_sample("laziness") {
                ctx.sample("laziness", json!({"row_ends": row_end, "consumed_at_each_yield": at_yield}));
            }
        }
    }
}

pub fn run(ctx: &mut Ctx) {
    // accepted texts at the decoder's nesting limit: chains of 126 / 127 containers around every kind of innermost value
    // (an empty grid with marker meta, an empty dict ...); their re-encoding must still be accepted
    if ctx.shard == 3 % ctx.nshards {
        let families: [(&str, &[u8]); 5] = [("list", &[0]), ("dict", &[1]), ("grid", &[2]), ("mixed", &[0, 1, 2]), ("meta", &[2, 3, 4, 1])];
        let mut idx = 0u64;
        for (_fam, kinds) in families {
            for d in [100usize, 126, 126, 126, 126, 126, 126, 126, 127, 127, 127, 127, 127, 127, 127] {
                let i = idx;
                idx += 1;
                if !ctx.begin("deep-chain", i) {
                    continue;
                }
                let mut rng = ctx.case_rng("deep-chain", i);
                let m = crate::gen::deep_chain_with_leaf(&mut rng, d, kinds, (i % 7) as usize);
                if let Ok(text) = libhaystack::encoding::zinc::encode::to_zinc_string(&crate::bridge::to_value(&m)) {
                    ctx.stratum("deep-chain");
                    zinc_fixed_point(ctx, &text, "deep-chain");
                    stream_equals_buffer(ctx, &text, &mut rng);
                }
                // the same value in the reference writer's plain spelling (bare marker tags), which does not depend on how the
                // library's own encoder spells things at that depth
                let (text, _) = write_zinc(&mut rng, &m, false);
                zinc_fixed_point(ctx, &text, "deep-chain");
            }
        }
    }
    let corpus = corpus_slices();
    // corpus files: whole-file fixed point once (shard 0), slices elsewhere
    if ctx.shard == 0 && ctx.begin("corpus-whole", 0) {
        for path in ["/repo/benches/zinc/points.zinc", "/repo/tests/defs/defs.zinc"] {
            if let Ok(text) = std::fs::read_to_string(path) {
                zinc_fixed_point(ctx, &text, "corpus-file");
                let mut rng = ctx.case_rng("corpus-whole", 0);
                stream_equals_buffer(ctx, &text, &mut rng);
            }
        }
        if let Ok(text) = std::fs::read_to_string("/repo/benches/json/points.json") {
            json_fixed_point(ctx, &text, "corpus-file");
        }
    }
    let n = ctx.n(300, 6_000);
    for i in 0..n {
        if corpus.is_empty() || !ctx.begin("corpus", i) {
            continue;
        }
        let mut rng = ctx.case_rng("corpus", i);
        let base = String::from_utf8_lossy(&corpus[rng.below(corpus.len())]).to_string();
        let text = if rng.coin() { base } else { String::from_utf8_lossy(&mutate(&mut rng, base.as_bytes(), &ZINC_TOKENS).0).to_string() };
        zinc_fixed_point(ctx, &text, "corpus");
        stream_equals_buffer(ctx, &text, &mut rng);
    }
    // grammar-generated documents with random spellings, and their accepted mutants
    let n = ctx.n(4_000, 80_000);
    for i in 0..n {
        if !ctx.begin("grammar", i) {
            continue;
        }
        let mut rng = ctx.case_rng("grammar", i);
        let m = if rng.coin() {
            let mut b = 40i64;
            MVal::Grid(Box::new(crate::gen::gen_grid(&mut rng, 3, &mut b)))
        } else {
            gen_value(&mut rng, 3)
        };
        let (text, _) = write_zinc(&mut rng, &m, true);
        if ctx.wants_sample("grammar") && text.len() < 200 {
            ctx.sample("grammar", json!(text));
        }
        zinc_fixed_point(ctx, &text, "grammar");
        stream_equals_buffer(ctx, &text, &mut rng);
        for _ in 0..6 {
            let mut d = text.as_bytes().to_vec();
            for _ in 0..1 + rng.below(2) {
                d = mutate(&mut rng, &d, &ZINC_TOKENS).0;
            }
            if let Ok(s) = String::from_utf8(d) {
                zinc_fixed_point(ctx, &s, "mutant");
                if rng.chance(1, 3) {
                    stream_equals_buffer(ctx, &s, &mut rng);
                }
            }
        }
        // Hayson: the library's own document for the value (spelling variations come with C05), and mutants
        let v = to_value_with(&m, rng.next_u64());
        // the reference writer's spelling of the same value (member orders, optional members, number spellings)
        let (rdoc, _) = crate::refjson::write_hayson(&mut rng, &m, true);
        json_fixed_point(ctx, &rdoc, "hayson-ref");
        if let Ok(doc) = serde_json::to_string(&v) {
            json_fixed_point(ctx, &doc, "hayson");
            for _ in 0..6 {
                let mut d = doc.as_bytes().to_vec();
                for _ in 0..1 + rng.below(2) {
                    d = mutate(&mut rng, &d, &JSON_TOKENS).0;
                }
                if let Ok(s) = String::from_utf8(d) {
                    json_fixed_point(ctx, &s, "mutant");
                }
            }
        }
    }
    // texts the decoders accept that no well-formed value produces: the encoders' output for constructible but
    // ill-formed values (C10's generator). Whatever the first decode keeps must survive a second pass.
    let n = ctx.n(3_000, 60_000);
    for i in 0..n {
        if !ctx.begin("illformed-images", i) {
            continue;
        }
        let mut rng = ctx.case_rng("illformed-images", i);
        let v = crate::mon_c10::any_value_top(&mut rng);
        if let Ok(Ok(t)) = catch(|| to_zinc_string(&v)) {
            zinc_fixed_point(ctx, &t, "illformed");
        }
        if let Ok(Ok(t)) = catch(|| serde_json::to_string(&v)) {
            json_fixed_point(ctx, &t, "illformed");
        }
    }
    // harness-written Hayson for relaxed (not well-formed) values: texts a lenient decoder may accept
    let n = ctx.n(3_000, 60_000);
    for i in 0..n {
        if !ctx.begin("liberal-hayson", i) {
            continue;
        }
        let mut rng = ctx.case_rng("liberal-hayson", i);
        let m = crate::gen::relax(&gen_value(&mut rng, 3), &mut rng);
        let (doc, _) = crate::refjson::write_hayson(&mut rng, &m, true);
        json_fixed_point(ctx, &doc, "liberal");
    }
    let n = ctx.n(300, 6_000);
    for i in 0..n {
        if !ctx.begin("laziness", i) {
            continue;
        }
        let mut rng = ctx.case_rng("laziness", i);
        laziness(ctx, &mut rng, i);
    }
}
