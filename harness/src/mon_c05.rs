//! C05 — Hayson conforms to the Project Haystack JSON encoding in both directions.

use crate::bridge::{observe, to_value_with};
use crate::ctx::{truncate, Ctx};
use crate::gen::{gen_scalar_of_kind, gen_value, strata_of};
use crate::model::{diff, MVal};
use crate::refjson::{read_hayson, write_hayson};
use crate::shrink::{shape, shrink};
use crate::util::{catch, panic_sig};
use libhaystack::val::Value;
use serde_json::json;

pub struct Fail {
    pub class: String,
    pub detail: String,
    pub text: Option<String>,
}

fn decode_ref_doc(m: &MVal, doc: &str, entry: u8) -> Result<(), Fail> {
    let r = catch(|| match entry {
        0 => serde_json::from_str::<Value>(doc).map_err(|e| e.to_string()),
        1 => serde_json::from_slice::<Value>(doc.as_bytes()).map_err(|e| e.to_string()),
        2 => serde_json::from_str::<serde_json::Value>(doc).map_err(|e| e.to_string()).and_then(|j| serde_json::from_value::<Value>(j).map_err(|e| e.to_string())),
        // a reader that hands out a few bytes at a time (serde_json cannot borrow from the input here)
        3 => serde_json::from_reader::<_, Value>(crate::readers::HostileReader::new(doc.as_bytes(), crate::readers::Chunking::Random(doc.len() as u64), true, None)).map_err(|e| e.to_string()),
        // the typed deserialiser of the value's own kind
        _ => typed_decode(m, doc),
    });
    match r {
        Err(p) => Err(Fail { class: panic_sig(&p), detail: p.msg, text: Some(doc.to_string()) }),
        Ok(Err(e)) => Err(Fail { class: "decode-err".into(), detail: format!("decoder rejected a Hayson document: {e}"), text: Some(doc.to_string()) }),
        Ok(Ok(v)) => match diff(m, &observe(&v)) {
            None => Ok(()),
            Some(d) => Err(Fail { class: "mismatch".into(), detail: d, text: Some(doc.to_string()) }),
        },
    }
}

fn typed_decode(m: &MVal, doc: &str) -> Result<Value, String> {
    use libhaystack::val::*;
    fn de<T: serde::de::DeserializeOwned + Into<Value>>(doc: &str) -> Result<Value, String> {
        serde_json::from_str::<T>(doc).map(Into::into).map_err(|e| format!("typed: {e}"))
    }
    match m {
        MVal::Num(..) => de::<Number>(doc),
        MVal::Str(_) => de::<Str>(doc),
        MVal::Uri(_) => de::<Uri>(doc),
        MVal::Ref(..) => de::<Ref>(doc),
        MVal::Symbol(_) => de::<Symbol>(doc),
        MVal::Date(..) => de::<Date>(doc),
        MVal::Time(..) => de::<Time>(doc),
        MVal::DateTime(_) => de::<DateTime>(doc),
        MVal::Coord(..) => de::<Coord>(doc),
        MVal::XStr(..) => de::<XStr>(doc),
        MVal::Dict(_) => de::<Dict>(doc),
        MVal::Grid(_) => de::<Grid>(doc),
        MVal::List(_) => serde_json::from_str::<Vec<Value>>(doc).map(Value::make_list).map_err(|e| format!("typed: {e}")),
        _ => serde_json::from_str::<Value>(doc).map_err(|e| e.to_string()),
    }
}

fn read_lib_doc(m: &MVal, bits: u64) -> Result<String, Fail> {
    let v = to_value_with(m, bits);
    let doc = match catch(|| serde_json::to_string(&v).map_err(|e| e.to_string())) {
        Err(p) => return Err(Fail { class: panic_sig(&p), detail: p.msg, text: None }),
        Ok(Err(e)) => return Err(Fail { class: "encode-err".into(), detail: e, text: None }),
        Ok(Ok(d)) => d,
    };
    let j: serde_json::Value = match serde_json::from_str(&doc) {
        Ok(j) => j,
        Err(e) => return Err(Fail { class: "not-json".into(), detail: format!("encoder output is not JSON: {e}"), text: Some(doc) }),
    };
    match read_hayson(&j) {
        Err(e) => Err(Fail { class: "not-hayson".into(), detail: format!("the reference reader rejects the encoder's document: {e}"), text: Some(doc) }),
        Ok(got) => match diff(m, &got) {
            None => Ok(doc),
            Some(d) => Err(Fail { class: "denotes-other-value".into(), detail: d, text: Some(doc) }),
        },
    }
}

fn check(ctx: &mut Ctx, m: &MVal, rng: &mut crate::prng::Rng, stream: &str) {
    let bits = rng.next_u64();
    let entry = rng.below(5) as u8;
    let (doc, used) = write_hayson(rng, m, true);
    for u in &used {
        ctx.stratum(&format!("spelling:{u}"));
    }
    // harness self-consistency first
    match serde_json::from_str::<serde_json::Value>(&doc).map_err(|e| e.to_string()).and_then(|j| read_hayson(&j)) {
        Ok(back) if back == *m => {}
        Ok(back) => {
            ctx.violation("HARNESS:refjson-self-inconsistent", &format!("reference reader(writer(v)) != v: {}", diff(m, &back).unwrap_or_default()), json!({"doc": truncate(&doc, 800)}));
            return;
        }
        Err(e) => {
            ctx.violation("HARNESS:refjson-self-inconsistent", &format!("reference reader rejects reference writer: {e}"), json!({"doc": truncate(&doc, 800)}));
            return;
        }
    }
    if ctx.wants_sample(&format!("{stream}-doc")) && doc.len() > 30 && doc.len() < 400 {
        ctx.sample(&format!("{stream}-doc"), json!({"value": truncate(&m.show(), 300), "reference_document": doc, "freedoms": used}));
    }
    if let Err(f) = decode_ref_doc(m, &doc, entry) {
        let seed = rng.next_u64();
        let class = f.class.clone();
        let mut attempt = |c: &MVal| -> Option<Fail> {
            for k in 0..6u64 {
                let mut r = crate::prng::Rng::new(crate::prng::mix(&[seed, k]));
                let (d, _) = write_hayson(&mut r, c, true);
                if let Err(f) = decode_ref_doc(c, &d, entry) {
                    if f.class == class {
                        return Some(f);
                    }
                }
            }
            None
        };
        let (min, f) = if ctx.shrinks < 40 {
            ctx.shrinks += 1;
            let min = shrink(m, &mut |c| attempt(c).is_some());
            let f2 = attempt(&min).unwrap_or(f);
            (min, f2)
        } else {
            (m.clone(), f)
        };
        ctx.violation(&format!("A:ref-doc->decoder:{}:{}", f.class, shape(&min)), &format!("{} — {}", shape(&min), f.detail), json!({"value": truncate(&min.show(), 800), "doc": f.text.map(|t| truncate(&t, 1000))}));
    }
    if let Err(f) = read_lib_doc(m, bits) {
        let class = f.class.clone();
        let (min, f) = if ctx.shrinks < 40 {
            ctx.shrinks += 1;
            let min = shrink(m, &mut |c| matches!(read_lib_doc(c, bits), Err(f) if f.class == class));
            let f2 = read_lib_doc(&min, bits).err().unwrap_or(f);
            (min, f2)
        } else {
            (m.clone(), f)
        };
        ctx.violation(&format!("B:encoder->ref-reader:{}:{}", f.class, shape(&min)), &format!("{} — {}", shape(&min), f.detail), json!({"value": truncate(&min.show(), 800), "doc": f.text.map(|t| truncate(&t, 1000))}));
    }
}

pub fn run(ctx: &mut Ctx) {
    let depth = if ctx.quick() { 4 } else { 6 };
    let n = ctx.n(6_000, 100_000);
    for i in 0..n {
        if !ctx.begin("scalar", i) {
            continue;
        }
        let mut rng = ctx.case_rng("scalar", i);
        let m = gen_scalar_of_kind(&mut rng, (i % 15) as usize);
        for s in strata_of(&m) {
            ctx.stratum(s);
        }
        ctx.eval(m.kind_name(), m.fp(), !matches!(m, MVal::Null | MVal::Marker | MVal::Na | MVal::Remove | MVal::Bool(_)));
        check(ctx, &m, &mut rng, "scalar");
    }
    let n = ctx.n(12_000, 200_000);
    for i in 0..n {
        if !ctx.begin("value", i) {
            continue;
        }
        let mut rng = ctx.case_rng("value", i);
        let m = gen_value(&mut rng, depth);
        for s in strata_of(&m) {
            ctx.stratum(s);
        }
        ctx.eval("value", m.fp(), m.size() > 1);
        check(ctx, &m, &mut rng, "value");
    }
    // wide values: more than 128 siblings at one level
    let n = ctx.n(60, 1_000);
    for i in 0..n {
        if !ctx.begin("wide", i) {
            continue;
        }
        let mut rng = ctx.case_rng("wide", i);
        let m = crate::gen::gen_wide(&mut rng);
        ctx.eval("wide", m.fp(), true);
        check(ctx, &m, &mut rng, "wide");
    }
    // all member orders of small objects: ref with dis (3 members), number with unit (3), coord (3), xstr (3), dateTime (3)
    if ctx.shard == 0 && ctx.begin("member-orders", 0) {
        let docs: Vec<(MVal, [&str; 3], [&str; 3])> = vec![
            (MVal::Ref("a".into(), Some("d".into())), ["\"_kind\":\"ref\"", "\"val\":\"a\"", "\"dis\":\"d\""], ["", "", ""]),
            (MVal::Num(crate::model::F(2.5), Some("meter".into())), ["\"_kind\":\"number\"", "\"val\":2.5", "\"unit\":\"m\""], ["", "", ""]),
            (MVal::Coord(crate::model::F(1.5), crate::model::F(-2.5)), ["\"_kind\":\"coord\"", "\"lat\":1.5", "\"lng\":-2.5"], ["", "", ""]),
            (MVal::XStr("T".into(), "v".into()), ["\"_kind\":\"xstr\"", "\"type\":\"T\"", "\"val\":\"v\""], ["", "", ""]),
            (MVal::DateTime(crate::bridge::mdatetime(chrono_tz::America::New_York, 1_600_000_000, 0)), ["\"_kind\":\"dateTime\"", "\"val\":\"2020-09-13T08:26:40-04:00\"", "\"tz\":\"New_York\""], ["", "", ""]),
        ];
        let perms = [[0, 1, 2], [0, 2, 1], [1, 0, 2], [1, 2, 0], [2, 0, 1], [2, 1, 0]];
        for (m, parts, _) in &docs {
            for p in perms {
                let doc = format!("{{{},{},{}}}", parts[p[0]], parts[p[1]], parts[p[2]]);
                ctx.eval("member-orders", crate::prng::hash_str(&doc), true);
                for entry in 0..5 {
                    if let Err(f) = decode_ref_doc(m, &doc, entry) {
                        ctx.violation(&format!("A:member-order:{}:{}", f.class, m.kind_name()), &format!("{doc}: {}", f.detail), json!({"doc": doc}));
                    }
                }
            }
        }
        // marker/na/remove inside containers, _kind dict first/last
        for doc in ["{\"a\":{\"_kind\":\"marker\"},\"_kind\":\"dict\"}", "{\"_kind\":\"dict\",\"a\":{\"_kind\":\"marker\"}}", "[{\"_kind\":\"na\"},{\"_kind\":\"remove\"},{\"_kind\":\"marker\"}]"] {
            let j: serde_json::Value = serde_json::from_str(doc).unwrap();
            let want = read_hayson(&j).unwrap();
            ctx.eval("member-orders", crate::prng::hash_str(doc), true);
            if let Err(f) = decode_ref_doc(&want, doc, 0) {
                ctx.violation(&format!("A:member-order:{}:container", f.class), &format!("{doc}: {}", f.detail), json!({"doc": doc}));
            }
        }
    }
}
