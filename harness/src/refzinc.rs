//! Spec-derived Zinc reference programs (DESIGN Appendix A): a writer that picks at random among
//! the spellings the grammar allows, and a strict reader that accepts exactly the grammar.
//! Neither shares code with libhaystack.

use crate::model::*;
use crate::prng::Rng;

// ---------------------------------------------------------------------------------------------
// writer
// ---------------------------------------------------------------------------------------------

#[derive(Clone, Copy)]
pub struct WOpts {
    /// 0 = canonical plain spelling, 1 = random legal variations
    pub vary: bool,
    pub crlf: bool,
}

pub struct Writer<'a> {
    pub rng: &'a mut Rng,
    pub o: WOpts,
    pub out: String,
    /// names of the spelling freedoms actually exercised in this document
    pub used: Vec<&'static str>,
}

impl<'a> Writer<'a> {
    pub fn new(rng: &'a mut Rng, vary: bool) -> Writer<'a> {
        let crlf = vary && rng.chance(1, 5);
        Writer { rng, o: WOpts { vary, crlf }, out: String::new(), used: Vec::new() }
    }

    fn flip(&mut self, num: u32, den: u32, name: &'static str) -> bool {
        if self.o.vary && self.rng.chance(num, den) {
            if !self.used.contains(&name) {
                self.used.push(name);
            }
            true
        } else {
            false
        }
    }

    fn nl(&mut self) {
        if self.o.crlf {
            if !self.used.contains(&"crlf") {
                self.used.push("crlf");
            }
            self.out.push_str("\r\n");
        } else {
            self.out.push('\n');
        }
    }

    fn sp(&mut self) {
        if self.flip(1, 3, "space-after-comma") {
            self.out.push(' ');
        }
    }

    /// optional blank(s) between two tokens where the tokenizer skips them (before a comma, inside brackets)
    fn gap(&mut self) {
        if self.flip(1, 6, "space-between-tokens") {
            self.out.push(' ');
        }
    }

    pub fn str_lit(&mut self, s: &str) {
        self.out.push('"');
        for c in s.chars() {
            let cp = c as u32;
            match c {
                '"' => self.out.push_str("\\\""),
                '\\' => self.out.push_str("\\\\"),
                '$' => self.out.push_str("\\$"),
                '\n' => self.out.push_str("\\n"),
                '\r' => self.out.push_str("\\r"),
                '\t' => self.out.push_str("\\t"),
                '\u{8}' if self.flip(1, 2, "esc-b") => self.out.push_str("\\b"),
                '\u{c}' if self.flip(1, 2, "esc-f") => self.out.push_str("\\f"),
                _ if cp < 0x20 => self.out.push_str(&format!("\\u{:04x}", cp)),
                _ if cp <= 0xffff && !(0xd800..0xe000).contains(&cp) && self.flip(1, 12, "esc-uXXXX") => {
                    if self.rng.coin() {
                        self.out.push_str(&format!("\\u{:04x}", cp))
                    } else {
                        self.out.push_str(&format!("\\u{:04X}", cp))
                    }
                }
                _ => self.out.push(c),
            }
        }
        self.out.push('"');
    }

    fn uri_lit(&mut self, s: &str) {
        self.out.push('`');
        for c in s.chars() {
            let cp = c as u32;
            match c {
                '`' => self.out.push_str("\\`"),
                '\\' => self.out.push_str("\\\\"),
                _ if (0x80..=0xffff).contains(&cp) && self.flip(1, 6, "uri-esc-uXXXX") => self.out.push_str(&format!("\\u{:04x}", cp)),
                _ => self.out.push(c),
            }
        }
        self.out.push('`');
    }

    fn digits_with_sep(&mut self, digits: &str) -> String {
        if digits.len() > 3 && self.flip(1, 4, "digit-underscore") {
            let mut s = String::new();
            for (i, c) in digits.chars().enumerate() {
                if i > 0 && self.rng.chance(1, 3) {
                    s.push('_');
                }
                s.push(c);
            }
            s
        } else {
            digits.to_string()
        }
    }

    pub fn number(&mut self, v: f64, unit: Option<&str>) {
        if v.is_nan() {
            self.out.push_str("NaN");
            return;
        }
        if v.is_infinite() {
            self.out.push_str(if v > 0.0 { "INF" } else { "-INF" });
            return;
        }
        // plain decimal spelling of the exact shortest representation
        let plain = format!("{}", v); // never uses an exponent
        let mut text = if (plain.len() > 24 || self.o.vary && self.rng.chance(1, 5)) && v != 0.0 {
            // exponent spelling of the same real
            if !self.used.contains(&"exponent") {
                self.used.push("exponent");
            }
            let e = format!("{:e}", v); // d.ddde[-]x
            let (mant, exp) = e.split_once('e').unwrap();
            let exp: i32 = exp.parse().unwrap();
            let echar = if self.rng.coin() { 'e' } else { 'E' };
            let sign = if exp < 0 {
                "-"
            } else if self.o.vary && self.rng.coin() {
                "+"
            } else {
                ""
            };
            // <exp> := ("e"|"E") ["+"|"-"] <digits>, and <digits> may hold '_' after the first digit
            let ed = format!("{}", exp.abs());
            let ed = if ed.len() > 1 && self.flip(1, 3, "exponent-digit-underscore") {
                let mut t = String::new();
                for (i, c) in ed.chars().enumerate() {
                    if i > 0 && self.rng.coin() {
                        t.push('_');
                    }
                    t.push(c);
                }
                t
            } else {
                ed
            };
            // '_' in the mantissa's integer and fraction digits as well
            let mant = if self.flip(1, 5, "mantissa-underscore") {
                let (neg, body) = match mant.strip_prefix('-') {
                    Some(b) => ("-", b),
                    None => ("", mant),
                };
                match body.split_once('.') {
                    Some((i, f)) if f.len() > 1 => format!("{neg}{i}.{}_{}", &f[..1], &f[1..]),
                    _ => format!("{neg}{body}"),
                }
            } else {
                mant.to_string()
            };
            format!("{}{}{}{}", mant, echar, sign, ed)
        } else {
            let (neg, body) = match plain.strip_prefix('-') {
                Some(b) => (true, b.to_string()),
                None => (false, plain.clone()),
            };
            let (int, frac) = match body.split_once('.') {
                Some((i, f)) => (i.to_string(), Some(f.to_string())),
                None => (body.clone(), None),
            };
            let int = self.digits_with_sep(&int);
            let mut t = String::new();
            if neg {
                t.push('-');
            }
            t.push_str(&int);
            match frac {
                Some(f) => {
                    t.push('.');
                    t.push_str(&f);
                    if self.flip(1, 6, "fraction-trailing-zero") {
                        t.push('0');
                    }
                }
                None => {
                    if self.flip(1, 5, "integer-dot-zero") {
                        t.push_str(".0");
                    }
                }
            }
            t
        };
        if let Some(u) = unit {
            text.push_str(u);
        }
        self.out.push_str(&text);
    }

    fn frac(&mut self, nanos: u32) {
        if nanos == 0 {
            if self.flip(1, 8, "fraction-all-zero") {
                let n = 1 + self.rng.below(9);
                self.out.push('.');
                for _ in 0..n {
                    self.out.push('0');
                }
            }
            return;
        }
        let mut s = format!("{:09}", nanos);
        while s.ends_with('0') {
            s.pop();
        }
        if self.flip(1, 4, "fraction-trailing-zero") {
            let extra = self.rng.below(9 - s.len() + 1);
            for _ in 0..extra {
                s.push('0');
            }
        }
        self.out.push('.');
        self.out.push_str(&s);
    }

    fn datetime(&mut self, d: &MDateTime) {
        // local fields from instant + offset
        let local = d.secs + d.offset as i64;
        let days = local.div_euclid(86400);
        let sod = local.rem_euclid(86400);
        let (y, m, dd) = civil_from_days(days);
        // a leap second is held as second 59 with a nanosecond field of 1e9 or more, and written as second 60
        let (leap, nanos) = if d.nanos >= 1_000_000_000 { (1, d.nanos - 1_000_000_000) } else { (0, d.nanos) };
        self.out.push_str(&format!("{:04}-{:02}-{:02}T{:02}:{:02}:{:02}", y, m, dd, sod / 3600, (sod / 60) % 60, sod % 60 + leap));
        self.frac(nanos);
        if d.tz == "UTC" {
            self.out.push('Z');
            if self.flip(1, 2, "z-utc") {
                self.out.push_str(" UTC");
            }
        } else {
            if d.offset == 0 && !self.flip(1, 3, "zero-offset-numeric") {
                self.out.push('Z');
            } else {
                let a = d.offset.abs();
                self.out.push_str(&format!("{}{:02}:{:02}", if d.offset < 0 { '-' } else { '+' }, a / 3600, (a / 60) % 60));
            }
            self.out.push(' ');
            self.out.push_str(&d.tz);
        }
    }

    fn tags(&mut self, d: &MDict, allow_comma: bool) {
        let mut first = true;
        for (k, v) in d {
            if !first {
                if allow_comma && self.flip(1, 2, "dict-comma-separator") {
                    self.out.push(',');
                    self.sp();
                } else {
                    self.out.push(' ');
                }
            }
            first = false;
            self.out.push_str(k);
            if *v == MVal::Marker {
                if self.flip(1, 4, "marker-spelled-M") {
                    self.out.push_str(":M");
                }
            } else {
                self.out.push(':');
                self.val(v);
            }
        }
    }

    pub fn grid(&mut self, g: &MGrid, nested: bool) {
        if nested {
            self.out.push_str("<<");
            if !self.flip(1, 4, "nested-grid-no-newline") {
                self.nl();
            }
        }
        self.out.push_str("ver:\"3.0\"");
        if !g.meta.is_empty() {
            self.out.push(' ');
            self.tags(&g.meta, false);
        }
        self.nl();
        for (i, c) in g.cols.iter().enumerate() {
            if i > 0 {
                self.out.push(',');
                self.sp();
            }
            self.out.push_str(&c.name);
            if !c.meta.is_empty() {
                self.out.push(' ');
                self.tags(&c.meta, false);
            }
        }
        self.nl();
        for r in &g.rows {
            for (i, c) in g.cols.iter().enumerate() {
                if i > 0 {
                    self.gap();
                    self.out.push(',');
                    self.sp();
                }
                match r.get(&c.name) {
                    None => {
                        if g.cols.len() == 1 {
                            self.out.push('N');
                        }
                    }
                    Some(v) => self.val(v),
                }
            }
            self.nl();
        }
        if nested {
            self.out.push_str(">>");
        } else if self.flip(1, 2, "trailing-blank-line") {
            self.nl();
        }
    }

    pub fn val(&mut self, v: &MVal) {
        match v {
            MVal::Null => self.out.push('N'),
            MVal::Marker => self.out.push('M'),
            MVal::Remove => self.out.push('R'),
            MVal::Na => self.out.push_str("NA"),
            MVal::Bool(b) => self.out.push(if *b { 'T' } else { 'F' }),
            MVal::Num(f, u) => {
                let sym = u.as_ref().map(|n| crate::bridge::unit_by_name(n).expect("unit").symbol().to_string());
                self.number(f.0, sym.as_deref())
            }
            MVal::Str(s) => self.str_lit(s),
            MVal::Uri(s) => self.uri_lit(s),
            MVal::Ref(id, dis) => {
                self.out.push('@');
                self.out.push_str(id);
                if let Some(d) = dis {
                    self.out.push(' ');
                    self.str_lit(d);
                }
            }
            MVal::Symbol(s) => {
                self.out.push('^');
                self.out.push_str(s);
            }
            MVal::Date(y, m, d) => self.out.push_str(&format!("{:04}-{:02}-{:02}", y, m, d)),
            MVal::Time(h, m, s, n) => {
                let (leap, nanos) = if *n >= 1_000_000_000 { (1, *n - 1_000_000_000) } else { (0, *n) };
                self.out.push_str(&format!("{:02}:{:02}:{:02}", h, m, s + leap));
                self.frac(nanos);
            }
            MVal::DateTime(d) => self.datetime(d),
            MVal::Coord(a, b) => {
                self.out.push_str(&format!("C({},{})", a.0, b.0));
            }
            MVal::XStr(t, s) => {
                self.out.push_str(t);
                self.out.push('(');
                self.str_lit(s);
                self.out.push(')');
            }
            MVal::List(l) => {
                self.out.push('[');
                self.gap();
                for (i, e) in l.iter().enumerate() {
                    if i > 0 {
                        self.gap();
                        self.out.push(',');
                        self.sp();
                    }
                    self.val(e);
                }
                if !l.is_empty() && self.flip(1, 4, "list-trailing-comma") {
                    self.out.push(',');
                }
                self.gap();
                self.out.push(']');
            }
            MVal::Dict(d) => {
                self.out.push('{');
                self.gap();
                self.tags(d, true);
                self.gap();
                self.out.push('}');
            }
            MVal::Grid(g) => self.grid(g, true),
        }
    }

    /// A whole document: a top-level grid is written bare, anything else as a value.
    pub fn document(&mut self, v: &MVal) {
        match v {
            MVal::Grid(g) => self.grid(g, false),
            other => self.val(other),
        }
    }
}

pub fn write_zinc(rng: &mut Rng, v: &MVal, vary: bool) -> (String, Vec<&'static str>) {
    let mut w = Writer::new(rng, vary);
    w.document(v);
    (w.out, w.used)
}

/// days since 1970-01-01 -> (year, month, day), proleptic Gregorian (Howard Hinnant's algorithm)
pub fn civil_from_days(z: i64) -> (i64, u32, u32) {
    let z = z + 719468;
    let era = z.div_euclid(146097);
    let doe = z.rem_euclid(146097);
    let yoe = (doe - doe / 1460 + doe / 36524 - doe / 146096) / 365;
    let y = yoe + era * 400;
    let doy = doe - (365 * yoe + yoe / 4 - yoe / 100);
    let mp = (5 * doy + 2) / 153;
    let d = (doy - (153 * mp + 2) / 5 + 1) as u32;
    let m = if mp < 10 { mp + 3 } else { mp - 9 } as u32;
    (if m <= 2 { y + 1 } else { y }, m, d)
}

pub fn days_from_civil(y: i64, m: u32, d: u32) -> i64 {
    let y = if m <= 2 { y - 1 } else { y };
    let era = y.div_euclid(400);
    let yoe = y.rem_euclid(400);
    let mp = if m > 2 { m - 3 } else { m + 9 } as i64;
    let doy = (153 * mp + 2) / 5 + d as i64 - 1;
    let doe = yoe * 365 + yoe / 4 - yoe / 100 + doy;
    era * 146097 + doe - 719468
}

// ---------------------------------------------------------------------------------------------
// strict reader
// ---------------------------------------------------------------------------------------------

pub struct Reader<'a> {
    s: &'a [u8],
    pub p: usize,
}

type R<T> = Result<T, String>;

impl<'a> Reader<'a> {
    pub fn new(text: &'a str) -> Reader<'a> {
        Reader { s: text.as_bytes(), p: 0 }
    }
    fn peek(&self) -> Option<u8> {
        self.s.get(self.p).copied()
    }
    fn peek_at(&self, k: usize) -> Option<u8> {
        self.s.get(self.p + k).copied()
    }
    fn err<T>(&self, m: &str) -> R<T> {
        let ctx: String = String::from_utf8_lossy(&self.s[self.p.min(self.s.len())..(self.p + 24).min(self.s.len())]).to_string();
        Err(format!("{m} at byte {} near {:?}", self.p, ctx))
    }
    fn eat(&mut self, c: u8) -> R<()> {
        if self.peek() == Some(c) {
            self.p += 1;
            Ok(())
        } else {
            self.err(&format!("expected {:?}", c as char))
        }
    }
    fn spaces(&mut self) {
        while self.peek() == Some(b' ') || self.peek() == Some(b'\t') {
            self.p += 1;
        }
    }
    fn newline(&mut self) -> R<()> {
        if self.peek() == Some(b'\r') && self.peek_at(1) == Some(b'\n') {
            self.p += 2;
            Ok(())
        } else if self.peek() == Some(b'\n') {
            self.p += 1;
            Ok(())
        } else {
            self.err("expected newline")
        }
    }
    fn at_newline(&self) -> bool {
        self.peek() == Some(b'\n') || (self.peek() == Some(b'\r') && self.peek_at(1) == Some(b'\n'))
    }

    fn id(&mut self) -> R<String> {
        let st = self.p;
        match self.peek() {
            Some(c) if c.is_ascii_lowercase() => self.p += 1,
            _ => return self.err("expected id"),
        }
        while let Some(c) = self.peek() {
            if c.is_ascii_alphanumeric() || c == b'_' {
                self.p += 1;
            } else {
                break;
            }
        }
        Ok(String::from_utf8_lossy(&self.s[st..self.p]).to_string())
    }

    fn utf8_char(&mut self) -> R<char> {
        let rest = &self.s[self.p..];
        let n = match rest.first() {
            None => return self.err("unexpected end"),
            Some(b) if *b < 0x80 => 1,
            Some(b) if *b >= 0xf0 => 4,
            Some(b) if *b >= 0xe0 => 3,
            Some(_) => 2,
        };
        if rest.len() < n {
            return self.err("truncated utf-8");
        }
        match std::str::from_utf8(&rest[..n]) {
            Ok(s) => {
                self.p += n;
                Ok(s.chars().next().unwrap())
            }
            Err(_) => self.err("invalid utf-8"),
        }
    }

    fn hex4(&mut self) -> R<char> {
        if self.p + 4 > self.s.len() {
            return self.err("short \\u escape");
        }
        let h = std::str::from_utf8(&self.s[self.p..self.p + 4]).map_err(|_| "bad hex".to_string())?;
        if !h.bytes().all(|b| b.is_ascii_hexdigit()) {
            return self.err("bad hex digits");
        }
        let cp = u32::from_str_radix(h, 16).map_err(|_| "bad hex".to_string())?;
        self.p += 4;
        char::from_u32(cp).ok_or_else(|| "surrogate code point in \\u escape".to_string())
    }

    fn str_lit(&mut self) -> R<String> {
        self.eat(b'"')?;
        let mut out = String::new();
        loop {
            match self.peek() {
                None => return self.err("unterminated string"),
                Some(b'"') => {
                    self.p += 1;
                    return Ok(out);
                }
                Some(b'\\') => {
                    self.p += 1;
                    let c = self.peek().ok_or("unterminated escape")?;
                    self.p += 1;
                    match c {
                        b'b' => out.push('\u{8}'),
                        b'f' => out.push('\u{c}'),
                        b'n' => out.push('\n'),
                        b'r' => out.push('\r'),
                        b't' => out.push('\t'),
                        b'"' => out.push('"'),
                        b'$' => out.push('$'),
                        b'\\' => out.push('\\'),
                        b'u' => out.push(self.hex4()?),
                        _ => return self.err("unknown string escape"),
                    }
                }
                Some(c) if c < 0x20 => return self.err("raw control character in string"),
                Some(_) => out.push(self.utf8_char()?),
            }
        }
    }

    fn uri_lit(&mut self) -> R<String> {
        self.eat(b'`')?;
        let mut out = String::new();
        loop {
            match self.peek() {
                None => return self.err("unterminated uri"),
                Some(b'`') => {
                    self.p += 1;
                    return Ok(out);
                }
                Some(b'\\') => {
                    self.p += 1;
                    let c = self.peek().ok_or("unterminated escape")?;
                    self.p += 1;
                    match c {
                        b'`' => out.push('`'),
                        b'\\' => out.push('\\'),
                        b'u' => out.push(self.hex4()?),
                        // other backslash pairs: implementations disagree; not part of the exercised grammar
                        _ => return self.err("uri escape outside the exercised grammar"),
                    }
                }
                Some(c) if c < 0x20 => return self.err("raw control character in uri"),
                Some(_) => out.push(self.utf8_char()?),
            }
        }
    }

    fn digits(&mut self, n: usize) -> R<u32> {
        let mut v = 0u32;
        for _ in 0..n {
            match self.peek() {
                Some(c) if c.is_ascii_digit() => {
                    v = v * 10 + (c - b'0') as u32;
                    self.p += 1;
                }
                _ => return self.err("expected digit"),
            }
        }
        Ok(v)
    }

    fn frac_nanos(&mut self) -> R<u32> {
        if self.peek() != Some(b'.') {
            return Ok(0);
        }
        self.p += 1;
        let st = self.p;
        while matches!(self.peek(), Some(c) if c.is_ascii_digit()) {
            self.p += 1;
        }
        let d = &self.s[st..self.p];
        if d.is_empty() || d.len() > 9 {
            return self.err("1-9 fraction digits expected");
        }
        let mut v: u32 = 0;
        for i in 0..9 {
            v = v * 10 + if i < d.len() { (d[i] - b'0') as u32 } else { 0 };
        }
        Ok(v)
    }

    fn is_date_start(&self) -> bool {
        (0..4).all(|i| matches!(self.peek_at(i), Some(c) if c.is_ascii_digit())) && self.peek_at(4) == Some(b'-')
    }
    fn is_time_start(&self) -> bool {
        (0..2).all(|i| matches!(self.peek_at(i), Some(c) if c.is_ascii_digit())) && self.peek_at(2) == Some(b':')
    }

    fn date_time(&mut self) -> R<MVal> {
        let y = self.digits(4)? as i32;
        self.eat(b'-')?;
        let m = self.digits(2)?;
        self.eat(b'-')?;
        let d = self.digits(2)?;
        if !(1..=12).contains(&m) || d < 1 || d > crate::gen::days_in_month(y, m) {
            return self.err("invalid calendar date");
        }
        if self.peek() != Some(b'T') {
            return Ok(MVal::Date(y, m, d));
        }
        self.p += 1;
        let (h, mi, s, n) = self.time_parts()?;
        let local = days_from_civil(y as i64, m, d) * 86400 + (h * 3600 + mi * 60 + s) as i64;
        let (offset, tz) = if self.peek() == Some(b'Z') {
            self.p += 1;
            if self.peek() == Some(b' ') && matches!(self.peek_at(1), Some(c) if c.is_ascii_uppercase()) {
                self.p += 1;
                (0, self.tzname()?)
            } else {
                (0, "UTC".to_string())
            }
        } else {
            let sign = match self.peek() {
                Some(b'+') => 1,
                Some(b'-') => -1,
                _ => return self.err("expected Z or offset"),
            };
            self.p += 1;
            let oh = self.digits(2)? as i32;
            self.eat(b':')?;
            let om = self.digits(2)? as i32;
            self.eat(b' ')?;
            (sign * (oh * 3600 + om * 60), self.tzname()?)
        };
        Ok(MVal::DateTime(MDateTime { secs: local - offset as i64, nanos: n, offset, tz }))
    }

    fn tzname(&mut self) -> R<String> {
        let st = self.p;
        match self.peek() {
            Some(c) if c.is_ascii_uppercase() => self.p += 1,
            _ => return self.err("expected zone name"),
        }
        while let Some(c) = self.peek() {
            if c.is_ascii_alphanumeric() || c == b'_' || c == b'/' || c == b'+' || c == b'-' {
                self.p += 1;
            } else {
                break;
            }
        }
        Ok(String::from_utf8_lossy(&self.s[st..self.p]).to_string())
    }

    fn time_parts(&mut self) -> R<(u32, u32, u32, u32)> {
        let h = self.digits(2)?;
        self.eat(b':')?;
        let mi = self.digits(2)?;
        self.eat(b':')?;
        let s = self.digits(2)?;
        let n = self.frac_nanos()?;
        if h > 23 || mi > 59 || s > 60 {
            return self.err("invalid time");
        }
        // second 60 = leap second: second 59 with the nanosecond field raised by 1e9
        if s == 60 {
            return Ok((h, mi, 59, n + 1_000_000_000));
        }
        Ok((h, mi, s, n))
    }

    fn dec_text(&mut self, allow_exp: bool) -> R<String> {
        let mut t = String::new();
        if self.peek() == Some(b'-') {
            t.push('-');
            self.p += 1;
        }
        let mut nd = 0;
        while let Some(c) = self.peek() {
            if c.is_ascii_digit() {
                t.push(c as char);
                nd += 1;
                self.p += 1;
            } else if c == b'_' && nd > 0 {
                self.p += 1;
            } else {
                break;
            }
        }
        if nd == 0 {
            return self.err("expected digits");
        }
        if self.peek() == Some(b'.') && matches!(self.peek_at(1), Some(c) if c.is_ascii_digit()) {
            t.push('.');
            self.p += 1;
            while let Some(c) = self.peek() {
                if c.is_ascii_digit() {
                    t.push(c as char);
                    self.p += 1;
                } else if c == b'_' {
                    self.p += 1;
                } else {
                    break;
                }
            }
        }
        if allow_exp && matches!(self.peek(), Some(b'e') | Some(b'E')) {
            let k = if matches!(self.peek_at(1), Some(b'+') | Some(b'-')) { 2 } else { 1 };
            if matches!(self.peek_at(k), Some(c) if c.is_ascii_digit()) {
                t.push('e');
                self.p += 1;
                if k == 2 {
                    t.push(self.peek().unwrap() as char);
                    self.p += 1;
                }
                while let Some(c) = self.peek() {
                    if c.is_ascii_digit() {
                        t.push(c as char);
                        self.p += 1;
                    } else if c == b'_' {
                        self.p += 1;
                    } else {
                        break;
                    }
                }
            }
        }
        Ok(t)
    }

    fn number(&mut self) -> R<MVal> {
        let t = self.dec_text(true)?;
        let v: f64 = t.parse().map_err(|_| format!("bad number {t}"))?;
        // unit
        let st = self.p;
        loop {
            match self.peek() {
                Some(c) if c.is_ascii_alphabetic() || c == b'%' || c == b'_' || c == b'/' || c == b'$' => self.p += 1,
                Some(c) if c >= 0x80 => {
                    self.utf8_char()?;
                }
                _ => break,
            }
        }
        let unit = if self.p > st {
            let sym = String::from_utf8_lossy(&self.s[st..self.p]).to_string();
            // the unit database is data, not code under test: map the symbol/name to the unit's name
            let u = crate::bridge::all_units().iter().find(|u| u.ids.iter().any(|i| *i == sym));
            match u {
                Some(u) => Some(u.name().to_string()),
                None => return self.err(&format!("unknown unit {sym:?}")),
            }
        } else {
            None
        };
        Ok(MVal::Num(F(v), unit))
    }

    fn refchars(&mut self) -> String {
        let st = self.p;
        while let Some(c) = self.peek() {
            if c.is_ascii_alphanumeric() || matches!(c, b'_' | b':' | b'-' | b'.' | b'~') {
                self.p += 1;
            } else {
                break;
            }
        }
        String::from_utf8_lossy(&self.s[st..self.p]).to_string()
    }

    fn tags(&mut self, in_dict: bool) -> R<MDict> {
        let mut d = MDict::new();
        loop {
            self.spaces();
            match self.peek() {
                Some(c) if c.is_ascii_lowercase() => {}
                _ => break,
            }
            let k = self.id()?;
            let v = if self.peek() == Some(b':') {
                self.p += 1;
                self.spaces();
                self.val()?
            } else {
                MVal::Marker
            };
            d.insert(k, v);
            self.spaces();
            if in_dict && self.peek() == Some(b',') {
                self.p += 1;
            }
        }
        Ok(d)
    }

    pub fn grid(&mut self, nested: bool) -> R<MGrid> {
        if nested {
            self.eat(b'<')?;
            self.eat(b'<')?;
            self.spaces();
            if self.at_newline() {
                self.newline()?;
            }
        }
        let ver_id = self.id()?;
        if ver_id != "ver" {
            return self.err("expected ver");
        }
        self.eat(b':')?;
        let ver = self.str_lit()?;
        if ver != "3.0" {
            return self.err("unsupported version");
        }
        let meta = self.tags(false)?;
        self.newline()?;
        let mut cols = Vec::new();
        loop {
            self.spaces();
            let name = self.id()?;
            let cmeta = self.tags(false)?;
            cols.push(MCol { name, meta: cmeta });
            self.spaces();
            if self.peek() == Some(b',') {
                self.p += 1;
            } else {
                break;
            }
        }
        self.newline()?;
        let mut rows = Vec::new();
        loop {
            // end of grid?
            if nested {
                if self.peek() == Some(b'>') && self.peek_at(1) == Some(b'>') {
                    self.p += 2;
                    break;
                }
            } else if self.peek().is_none() || self.at_newline() {
                if self.at_newline() {
                    self.newline()?;
                }
                break;
            }
            let mut row = MDict::new();
            let mut ci = 0;
            loop {
                self.spaces();
                if ci >= cols.len() {
                    return self.err("more cells than columns");
                }
                if self.peek() == Some(b',') || self.at_newline() {
                    // empty cell
                } else {
                    let v = self.val()?;
                    row.insert(cols[ci].name.clone(), v);
                    self.spaces();
                }
                ci += 1;
                if self.peek() == Some(b',') {
                    self.p += 1;
                } else {
                    break;
                }
            }
            if ci != cols.len() {
                return self.err("fewer cells than columns");
            }
            self.newline()?;
            rows.push(row);
        }
        Ok(MGrid { meta, cols, rows })
    }

    pub fn val(&mut self) -> R<MVal> {
        match self.peek() {
            None => self.err("unexpected end"),
            Some(b'"') => Ok(MVal::Str(self.str_lit()?)),
            Some(b'`') => Ok(MVal::Uri(self.uri_lit()?)),
            Some(b'@') => {
                self.p += 1;
                let id = self.refchars();
                if id.is_empty() {
                    return self.err("empty ref");
                }
                let dis = if self.peek() == Some(b' ') && self.peek_at(1) == Some(b'"') {
                    self.p += 1;
                    Some(self.str_lit()?)
                } else {
                    None
                };
                Ok(MVal::Ref(id, dis))
            }
            Some(b'^') => {
                self.p += 1;
                if !matches!(self.peek(), Some(c) if c.is_ascii_lowercase()) {
                    return self.err("symbol must start with a lower-case letter");
                }
                Ok(MVal::Symbol(self.refchars()))
            }
            Some(b'[') => {
                self.p += 1;
                let mut l = Vec::new();
                loop {
                    self.spaces();
                    if self.peek() == Some(b']') {
                        self.p += 1;
                        break;
                    }
                    l.push(self.val()?);
                    self.spaces();
                    if self.peek() == Some(b',') {
                        self.p += 1;
                    } else {
                        self.spaces();
                        self.eat(b']')?;
                        break;
                    }
                }
                Ok(MVal::List(l))
            }
            Some(b'{') => {
                self.p += 1;
                let d = self.tags(true)?;
                self.spaces();
                self.eat(b'}')?;
                Ok(MVal::Dict(d))
            }
            Some(b'<') => Ok(MVal::Grid(Box::new(self.grid(true)?))),
            Some(b'-') => {
                if self.s[self.p..].starts_with(b"-INF") {
                    self.p += 4;
                    Ok(MVal::Num(F(f64::NEG_INFINITY), None))
                } else {
                    self.number()
                }
            }
            Some(c) if c.is_ascii_digit() => {
                if self.is_date_start() {
                    self.date_time()
                } else if self.is_time_start() {
                    let (h, m, s, n) = self.time_parts()?;
                    Ok(MVal::Time(h, m, s, n))
                } else {
                    self.number()
                }
            }
            Some(c) if c.is_ascii_uppercase() => {
                let st = self.p;
                while matches!(self.peek(), Some(c) if c.is_ascii_alphanumeric() || c == b'_') {
                    self.p += 1;
                }
                let word = String::from_utf8_lossy(&self.s[st..self.p]).to_string();
                if self.peek() == Some(b'(') {
                    self.p += 1;
                    if word == "C" {
                        let a = self.dec_text(false)?;
                        self.eat(b',')?;
                        let b = self.dec_text(false)?;
                        self.eat(b')')?;
                        return Ok(MVal::Coord(F(a.parse().map_err(|_| "bad lat")?), F(b.parse().map_err(|_| "bad lng")?)));
                    }
                    let s = self.str_lit()?;
                    self.eat(b')')?;
                    return Ok(MVal::XStr(word, s));
                }
                match word.as_str() {
                    "N" => Ok(MVal::Null),
                    "M" => Ok(MVal::Marker),
                    "R" => Ok(MVal::Remove),
                    "NA" => Ok(MVal::Na),
                    "T" => Ok(MVal::Bool(true)),
                    "F" => Ok(MVal::Bool(false)),
                    "NaN" => Ok(MVal::Num(F(f64::NAN), None)),
                    "INF" => Ok(MVal::Num(F(f64::INFINITY), None)),
                    _ => self.err("unknown keyword"),
                }
            }
            Some(_) => self.err("unexpected character"),
        }
    }
}

/// Read a whole Zinc document: a bare grid if it starts with `ver:`, a value otherwise.
pub fn read_zinc(text: &str) -> R<MVal> {
    let mut r = Reader::new(text);
    let v = if text.starts_with("ver:") { MVal::Grid(Box::new(r.grid(false)?)) } else { r.val()? };
    // trailing blank lines / spaces allowed
    while matches!(r.peek(), Some(b' ') | Some(b'\n') | Some(b'\r') | Some(b'\t')) {
        r.p += 1;
    }
    if r.p != text.len() {
        return r.err("trailing text after the value");
    }
    Ok(v)
}
