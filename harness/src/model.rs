//! Harness-owned value model with *strict* structural equality.
//!
//! libhaystack's own `==` is too weak to be the oracle for "equal in every component":
//! Ref equality ignores the display name, DateTime equality ignores the zone, +0 == -0.
//! `MVal` compares every component; f64 by bit pattern with a single NaN class.

use crate::prng::{hash_str, mix};
use std::collections::BTreeMap;

#[derive(Clone, Copy, Debug)]
pub struct F(pub f64);

impl F {
    pub fn bits(self) -> u64 {
        if self.0.is_nan() {
            0x7ff8_0000_0000_0000
        } else {
            self.0.to_bits()
        }
    }
}
impl PartialEq for F {
    fn eq(&self, o: &F) -> bool {
        self.bits() == o.bits()
    }
}
impl Eq for F {}

pub type MDict = BTreeMap<String, MVal>;

#[derive(Clone, Debug, PartialEq, Eq)]
pub struct MCol {
    pub name: String,
    /// absent column meta and empty column meta are the same thing
    pub meta: MDict,
}

#[derive(Clone, Debug, PartialEq, Eq)]
pub struct MGrid {
    /// absent grid meta and empty grid meta are the same thing
    pub meta: MDict,
    pub cols: Vec<MCol>,
    /// a Null cell and a missing cell differ: a missing cell has no entry
    pub rows: Vec<MDict>,
}

#[derive(Clone, Debug, PartialEq, Eq)]
pub struct MDateTime {
    /// seconds since the epoch (UTC instant)
    pub secs: i64,
    pub nanos: u32,
    /// local offset from UTC in seconds
    pub offset: i32,
    /// short (city) zone name, "UTC" for UTC
    pub tz: String,
}

#[derive(Clone, Debug, PartialEq, Eq)]
pub enum MVal {
    Null,
    Remove,
    Marker,
    Na,
    Bool(bool),
    /// value, unit name (first id of the database unit)
    Num(F, Option<String>),
    Str(String),
    Uri(String),
    Ref(String, Option<String>),
    Symbol(String),
    Date(i32, u32, u32),
    /// hour, minute, second, nanosecond
    Time(u32, u32, u32, u32),
    DateTime(MDateTime),
    Coord(F, F),
    XStr(String, String),
    List(Vec<MVal>),
    Dict(MDict),
    Grid(Box<MGrid>),
}

pub const KIND_NAMES: [&str; 18] = [
    "null", "remove", "marker", "na", "bool", "number", "str", "uri", "ref", "symbol", "date", "time",
    "dateTime", "coord", "xstr", "list", "dict", "grid",
];

impl MVal {
    pub fn kind(&self) -> usize {
        match self {
            MVal::Null => 0,
            MVal::Remove => 1,
            MVal::Marker => 2,
            MVal::Na => 3,
            MVal::Bool(_) => 4,
            MVal::Num(..) => 5,
            MVal::Str(_) => 6,
            MVal::Uri(_) => 7,
            MVal::Ref(..) => 8,
            MVal::Symbol(_) => 9,
            MVal::Date(..) => 10,
            MVal::Time(..) => 11,
            MVal::DateTime(_) => 12,
            MVal::Coord(..) => 13,
            MVal::XStr(..) => 14,
            MVal::List(_) => 15,
            MVal::Dict(_) => 16,
            MVal::Grid(_) => 17,
        }
    }
    pub fn kind_name(&self) -> &'static str {
        KIND_NAMES[self.kind()]
    }

    pub fn num(v: f64) -> MVal {
        MVal::Num(F(v), None)
    }
    pub fn str(s: &str) -> MVal {
        MVal::Str(s.to_string())
    }

    /// structural fingerprint (for distinctness counting)
    pub fn fp(&self) -> u64 {
        match self {
            MVal::Null | MVal::Remove | MVal::Marker | MVal::Na => mix(&[self.kind() as u64]),
            MVal::Bool(b) => mix(&[4, *b as u64]),
            MVal::Num(v, u) => mix(&[5, v.bits(), u.as_ref().map_or(0, |s| hash_str(s))]),
            MVal::Str(s) => mix(&[6, hash_str(s)]),
            MVal::Uri(s) => mix(&[7, hash_str(s)]),
            MVal::Ref(s, d) => mix(&[8, hash_str(s), d.as_ref().map_or(1, |s| hash_str(s))]),
            MVal::Symbol(s) => mix(&[9, hash_str(s)]),
            MVal::Date(y, m, d) => mix(&[10, *y as u64, *m as u64, *d as u64]),
            MVal::Time(h, m, s, n) => mix(&[11, *h as u64, *m as u64, *s as u64, *n as u64]),
            MVal::DateTime(d) => mix(&[12, d.secs as u64, d.nanos as u64, d.offset as u64, hash_str(&d.tz)]),
            MVal::Coord(a, b) => mix(&[13, a.bits(), b.bits()]),
            MVal::XStr(t, v) => mix(&[14, hash_str(t), hash_str(v)]),
            MVal::List(l) => {
                let mut w = vec![15u64];
                w.extend(l.iter().map(|v| v.fp()));
                mix(&w)
            }
            MVal::Dict(d) => mix(&[16, dict_fp(d)]),
            MVal::Grid(g) => {
                let mut w = vec![17u64, dict_fp(&g.meta)];
                for c in &g.cols {
                    w.push(hash_str(&c.name));
                    w.push(dict_fp(&c.meta));
                }
                for r in &g.rows {
                    w.push(dict_fp(r));
                }
                mix(&w)
            }
        }
    }

    pub fn depth(&self) -> usize {
        match self {
            MVal::List(l) => 1 + l.iter().map(|v| v.depth()).max().unwrap_or(0),
            MVal::Dict(d) => 1 + d.values().map(|v| v.depth()).max().unwrap_or(0),
            MVal::Grid(g) => {
                let mut m = g.meta.values().map(|v| v.depth()).max().unwrap_or(0);
                for c in &g.cols {
                    m = m.max(c.meta.values().map(|v| v.depth()).max().unwrap_or(0));
                }
                for r in &g.rows {
                    m = m.max(r.values().map(|v| v.depth()).max().unwrap_or(0));
                }
                1 + m
            }
            _ => 0,
        }
    }

    /// number of nodes
    pub fn size(&self) -> usize {
        match self {
            MVal::List(l) => 1 + l.iter().map(|v| v.size()).sum::<usize>(),
            MVal::Dict(d) => 1 + d.values().map(|v| v.size()).sum::<usize>(),
            MVal::Grid(g) => {
                1 + g.meta.values().map(|v| v.size()).sum::<usize>()
                    + g.cols.iter().map(|c| 1 + c.meta.values().map(|v| v.size()).sum::<usize>()).sum::<usize>()
                    + g.rows.iter().map(|r| 1 + r.values().map(|v| v.size()).sum::<usize>()).sum::<usize>()
            }
            _ => 1,
        }
    }

    /// Visit every node (pre-order).
    pub fn walk<'a>(&'a self, f: &mut dyn FnMut(&'a MVal)) {
        f(self);
        match self {
            MVal::List(l) => l.iter().for_each(|v| v.walk(f)),
            MVal::Dict(d) => d.values().for_each(|v| v.walk(f)),
            MVal::Grid(g) => {
                g.meta.values().for_each(|v| v.walk(f));
                for c in &g.cols {
                    c.meta.values().for_each(|v| v.walk(f));
                }
                for r in &g.rows {
                    r.values().for_each(|v| v.walk(f));
                }
            }
            _ => {}
        }
    }

    /// Compact human-readable rendering for witnesses and samples (not Zinc: every component shown).
    pub fn show(&self) -> String {
        let mut s = String::new();
        self.show_into(&mut s);
        s
    }

    fn show_into(&self, o: &mut String) {
        use std::fmt::Write;
        match self {
            MVal::Null => o.push_str("Null"),
            MVal::Remove => o.push_str("Remove"),
            MVal::Marker => o.push_str("Marker"),
            MVal::Na => o.push_str("NA"),
            MVal::Bool(b) => write!(o, "{}", b).unwrap(),
            MVal::Num(v, u) => {
                write!(o, "Num({:?}", v.0).unwrap();
                if v.0 == 0.0 && v.0.is_sign_negative() {
                    o.push_str("[neg0]");
                }
                if let Some(u) = u {
                    write!(o, " {}", u).unwrap();
                }
                o.push(')');
            }
            MVal::Str(s) => write!(o, "Str({:?})", s).unwrap(),
            MVal::Uri(s) => write!(o, "Uri({:?})", s).unwrap(),
            MVal::Ref(s, d) => match d {
                Some(d) => write!(o, "Ref({:?} dis={:?})", s, d).unwrap(),
                None => write!(o, "Ref({:?})", s).unwrap(),
            },
            MVal::Symbol(s) => write!(o, "Symbol({:?})", s).unwrap(),
            MVal::Date(y, m, d) => write!(o, "Date({:04}-{:02}-{:02})", y, m, d).unwrap(),
            MVal::Time(h, m, s, n) => write!(o, "Time({:02}:{:02}:{:02}.{:09})", h, m, s, n).unwrap(),
            MVal::DateTime(d) => write!(o, "DateTime(utc={}s+{}ns off={}s tz={})", d.secs, d.nanos, d.offset, d.tz).unwrap(),
            MVal::Coord(a, b) => write!(o, "Coord({:?},{:?})", a.0, b.0).unwrap(),
            MVal::XStr(t, v) => write!(o, "XStr({:?},{:?})", t, v).unwrap(),
            MVal::List(l) => {
                o.push('[');
                for (i, v) in l.iter().enumerate() {
                    if i > 0 {
                        o.push_str(", ");
                    }
                    v.show_into(o);
                }
                o.push(']');
            }
            MVal::Dict(d) => show_dict(d, o),
            MVal::Grid(g) => {
                o.push_str("Grid{meta:");
                show_dict(&g.meta, o);
                o.push_str(" cols:[");
                for (i, c) in g.cols.iter().enumerate() {
                    if i > 0 {
                        o.push_str(", ");
                    }
                    write!(o, "{:?}", c.name).unwrap();
                    if !c.meta.is_empty() {
                        show_dict(&c.meta, o);
                    }
                }
                o.push_str("] rows:[");
                for (i, r) in g.rows.iter().enumerate() {
                    if i > 0 {
                        o.push_str(", ");
                    }
                    show_dict(r, o);
                }
                o.push_str("]}");
            }
        }
    }
}

fn show_dict(d: &MDict, o: &mut String) {
    use std::fmt::Write;
    o.push('{');
    for (i, (k, v)) in d.iter().enumerate() {
        if i > 0 {
            o.push_str(", ");
        }
        write!(o, "{:?}: ", k).unwrap();
        v.show_into(o);
    }
    o.push('}');
}

pub fn dict_fp(d: &MDict) -> u64 {
    let mut w = vec![d.len() as u64];
    for (k, v) in d {
        w.push(hash_str(k));
        w.push(v.fp());
    }
    mix(&w)
}

/// First difference between two model values, as a path and a short description.
pub fn diff(a: &MVal, b: &MVal) -> Option<String> {
    diff_at(a, b, "$")
}

fn diff_dict(a: &MDict, b: &MDict, path: &str) -> Option<String> {
    for (k, va) in a {
        match b.get(k) {
            None => return Some(format!("{}.{}: present vs missing (expected {})", path, k, crate::ctx::truncate(&va.show(), 120))),
            Some(vb) => {
                if let Some(d) = diff_at(va, vb, &format!("{}.{}", path, k)) {
                    return Some(d);
                }
            }
        }
    }
    for (k, vb) in b {
        if !a.contains_key(k) {
            return Some(format!("{}.{}: missing vs present (got {})", path, k, crate::ctx::truncate(&vb.show(), 120)));
        }
    }
    None
}

fn diff_at(a: &MVal, b: &MVal, path: &str) -> Option<String> {
    if a == b {
        return None;
    }
    match (a, b) {
        (MVal::List(x), MVal::List(y)) => {
            if x.len() != y.len() {
                return Some(format!("{}: list length {} vs {}", path, x.len(), y.len()));
            }
            for (i, (p, q)) in x.iter().zip(y.iter()).enumerate() {
                if let Some(d) = diff_at(p, q, &format!("{}[{}]", path, i)) {
                    return Some(d);
                }
            }
            None
        }
        (MVal::Dict(x), MVal::Dict(y)) => diff_dict(x, y, path),
        (MVal::Grid(x), MVal::Grid(y)) => {
            if let Some(d) = diff_dict(&x.meta, &y.meta, &format!("{}.meta", path)) {
                return Some(d);
            }
            if x.cols.len() != y.cols.len() {
                return Some(format!(
                    "{}: column count {} vs {} ({:?} vs {:?})",
                    path,
                    x.cols.len(),
                    y.cols.len(),
                    x.cols.iter().map(|c| c.name.as_str()).collect::<Vec<_>>(),
                    y.cols.iter().map(|c| c.name.as_str()).collect::<Vec<_>>()
                ));
            }
            for (i, (p, q)) in x.cols.iter().zip(y.cols.iter()).enumerate() {
                if p.name != q.name {
                    return Some(format!("{}.cols[{}]: name {:?} vs {:?}", path, i, p.name, q.name));
                }
                if let Some(d) = diff_dict(&p.meta, &q.meta, &format!("{}.cols[{}].meta", path, i)) {
                    return Some(d);
                }
            }
            if x.rows.len() != y.rows.len() {
                return Some(format!("{}: row count {} vs {}", path, x.rows.len(), y.rows.len()));
            }
            for (i, (p, q)) in x.rows.iter().zip(y.rows.iter()).enumerate() {
                if let Some(d) = diff_dict(p, q, &format!("{}.rows[{}]", path, i)) {
                    return Some(d);
                }
            }
            None
        }
        _ => Some(format!(
            "{}: expected {} got {}",
            path,
            crate::ctx::truncate(&a.show(), 200),
            crate::ctx::truncate(&b.show(), 200)
        )),
    }
}
