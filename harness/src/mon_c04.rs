//! C04 — Zinc conforms to the grammar in both directions (two-way differential against the
//! spec-derived reference writer and reader of refzinc.rs).

use crate::bridge::{observe, to_value_with};
use crate::ctx::{truncate, Ctx};
use crate::gen::{gen_scalar_of_kind, gen_value, strata_of};
use crate::model::{diff, MVal};
use crate::mon_c01::one_col_missing_as_null;
use crate::refzinc::{read_zinc, write_zinc};
use crate::shrink::{shape, shrink};
use crate::util::{panic_sig, with_fuel};
use libhaystack::encoding::zinc::decode::from_str;
use libhaystack::encoding::zinc::encode::to_zinc_string;
use serde_json::json;

pub struct Fail {
    pub class: String,
    pub detail: String,
    pub text: Option<String>,
}

/// Equality up to what the grammar can denote: in a one-column grid an empty row cannot be written,
/// a missing only-cell is spelled N (counted as don't-care, not asserted).
fn same_denotation(expected: &MVal, got: &MVal) -> Option<String> {
    match diff(expected, got) {
        None => None,
        Some(d) => {
            if one_col_missing_as_null(expected) == *got {
                None
            } else {
                Some(d)
            }
        }
    }
}

/// direction A: reference spelling -> libhaystack decoder
pub fn decode_reference_text(m: &MVal, text: &str) -> Result<(), Fail> {
    let fuel = 64 * text.len() as u64 + 4096;
    let dec = with_fuel(fuel, || from_str(text));
    let back = match dec.result {
        Err(p) if p.fuel_site.is_some() => return Err(Fail { class: "decode-hang".into(), detail: "decoder exceeded its step budget on a grammatical document".into(), text: Some(text.to_string()) }),
        Err(p) => return Err(Fail { class: panic_sig(&p), detail: format!("decoder panicked: {} at {}:{}", p.msg, p.file, p.line), text: Some(text.to_string()) }),
        Ok(Err(e)) => return Err(Fail { class: "decode-err".into(), detail: format!("decoder rejected a grammatical document: {e}"), text: Some(text.to_string()) }),
        Ok(Ok(b)) => b,
    };
    match same_denotation(m, &observe(&back)) {
        None => Ok(()),
        Some(d) => Err(Fail { class: "mismatch".into(), detail: d, text: Some(text.to_string()) }),
    }
}

/// direction B: libhaystack encoder -> strict reference reader
pub fn read_library_text(m: &MVal, bits: u64) -> Result<String, Fail> {
    let v = to_value_with(m, bits);
    let enc = with_fuel(u64::MAX, || to_zinc_string(&v));
    let text = match enc.result {
        Err(p) => return Err(Fail { class: panic_sig(&p), detail: format!("encoder panicked: {}", p.msg), text: None }),
        Ok(Err(e)) => return Err(Fail { class: "encode-err".into(), detail: e.to_string(), text: None }),
        Ok(Ok(t)) => t,
    };
    match read_zinc(&text) {
        Err(e) => Err(Fail { class: "not-grammatical".into(), detail: format!("the reference reader rejects the encoder's text: {e}"), text: Some(text) }),
        Ok(got) => match same_denotation(m, &got) {
            None => Ok(text),
            Some(d) => Err(Fail { class: "denotes-other-value".into(), detail: d, text: Some(text) }),
        },
    }
}

fn check(ctx: &mut Ctx, m: &MVal, rng: &mut crate::prng::Rng, stream: &str, i: u64) {
    let bits = rng.next_u64();
    // the reference programs must agree with each other first (harness self-consistency)
    let (text, used) = write_zinc(rng, m, true);
    for u in &used {
        ctx.stratum(&format!("spelling:{u}"));
    }
    match read_zinc(&text) {
        Ok(back) if same_denotation(m, &back).is_none() => {}
        Ok(back) => {
            ctx.violation("HARNESS:refzinc-self-inconsistent", &format!("reference reader(writer(v)) != v: {}", diff(m, &back).unwrap_or_default()), json!({"text": truncate(&text, 800)}));
            return;
        }
        Err(e) => {
            ctx.violation("HARNESS:refzinc-self-inconsistent", &format!("reference reader rejects reference writer: {e}"), json!({"text": truncate(&text, 800)}));
            return;
        }
    }
    if one_col_missing_as_null(m) != *m {
        ctx.dont_care("one-column grid with a missing only-cell: N and 'missing' are the same denotation");
    }
    if ctx.wants_sample(&format!("{stream}-text")) && text.len() > 20 && text.len() < 400 {
        ctx.sample(&format!("{stream}-text"), json!({"value": truncate(&m.show(), 300), "reference_spelling": text, "freedoms": used}));
    }
    if let Err(f) = decode_reference_text(m, &text) {
        let seed_case = ctx.case_rng(stream, i);
        report(ctx, "A:ref-text->decoder", m, f, seed_case, bits, true);
    }
    if let Err(f) = read_library_text(m, bits) {
        let seed_case = ctx.case_rng(stream, i);
        report(ctx, "B:encoder->ref-reader", m, f, seed_case, bits, false);
    }
}

fn report(ctx: &mut Ctx, dir: &str, m: &MVal, first: Fail, base_rng: crate::prng::Rng, bits: u64, dir_a: bool) {
    if ctx.shrinks >= 40 {
        ctx.violation(&format!("{dir}:{}:unshrunk", first.class), &first.detail, json!({"value": truncate(&m.show(), 1200), "zinc": first.text.map(|t| truncate(&t, 1200))}));
        return;
    }
    ctx.shrinks += 1;
    let class = first.class.clone();
    // for direction A the spelling is random: try a handful of spellings per candidate
    let mut attempt = |c: &MVal| -> Option<Fail> {
        if dir_a {
            for k in 0..6u64 {
                let mut r = crate::prng::Rng::new(crate::prng::mix(&[base_rng.clone().next_u64(), k]));
                let (text, _) = write_zinc(&mut r, c, true);
                if read_zinc(&text).is_err() {
                    continue;
                }
                if let Err(f) = decode_reference_text(c, &text) {
                    if f.class == class {
                        return Some(f);
                    }
                }
            }
            None
        } else {
            match read_library_text(c, bits) {
                Err(f) if f.class == class => Some(f),
                _ => None,
            }
        }
    };
    let min = shrink(m, &mut |c| attempt(c).is_some());
    let f = attempt(&min).unwrap_or(first);
    let sig = format!("{dir}:{}:{}", f.class, shape(&min));
    ctx.violation(&sig, &format!("{} — {}", shape(&min), f.detail), json!({"value": truncate(&min.show(), 1200), "zinc": f.text.map(|t| truncate(&t, 1200)), "original": truncate(&m.show(), 500)}));
}

pub fn run(ctx: &mut Ctx) {
    let depth = if ctx.quick() { 4 } else { 6 };
    let n = ctx.n(6_000, 100_000);
    for i in 0..n {
        if !ctx.begin("scalar", i) {
            continue;
        }
        let mut rng = ctx.case_rng("scalar", i);
        let m = gen_scalar_of_kind(&mut rng, (i % 15) as usize);
        for s in strata_of(&m) {
            ctx.stratum(s);
        }
        ctx.eval(m.kind_name(), m.fp(), !matches!(m, MVal::Null | MVal::Marker | MVal::Na | MVal::Remove | MVal::Bool(_)));
        check(ctx, &m, &mut rng, "scalar", i);
    }
    let n = ctx.n(12_000, 200_000);
    for i in 0..n {
        if !ctx.begin("value", i) {
            continue;
        }
        let mut rng = ctx.case_rng("value", i);
        let m = gen_value(&mut rng, depth);
        for s in strata_of(&m) {
            ctx.stratum(s);
        }
        ctx.eval("value", m.fp(), m.size() > 1);
        check(ctx, &m, &mut rng, "value", i);
    }
    // wide values: more than 128 siblings at one level
    let n = ctx.n(60, 1_000);
    for i in 0..n {
        if !ctx.begin("wide", i) {
            continue;
        }
        let mut rng = ctx.case_rng("wide", i);
        let m = crate::gen::gen_wide(&mut rng);
        ctx.eval("wide", m.fp(), true);
        check(ctx, &m, &mut rng, "wide", i);
    }
    // deep chains: grammar sentences nested up to the decoder's documented limit (127 containers), every leaf kind at the limit
    if ctx.shard == 0 {
        let families: [(&str, &[u8]); 5] = [("list", &[0]), ("dict", &[1]), ("grid", &[2]), ("mixed", &[0, 1, 2]), ("meta", &[2, 3, 4, 1])];
        let mut idx = 0u64;
        for (fam, kinds) in families {
            for d in [1usize, 8, 64, 100, 126, 126, 126, 126, 126, 126, 126, 127, 127, 127, 127, 127, 127, 127] {
                let i = idx;
                idx += 1;
                if !ctx.begin("deep-chain", i) {
                    continue;
                }
                let mut rng = ctx.case_rng("deep-chain", i);
                // (at 127 containers only scalar leaves: an empty grid or dict there may hold a marker tag, and the spelling
                // 'm:M' of a marker - which the grammar allows - is a value one level deeper than the bare 'm')
                let m = if d == 127 { crate::gen::deep_chain_with_leaf(&mut rng, d, kinds, (i % 4) as usize) } else if d == 126 { crate::gen::deep_chain_with_leaf(&mut rng, d, kinds, (i % 7) as usize) } else { crate::gen::deep_chain(&mut rng, d, kinds) };
                ctx.eval(&format!("deep-chain:{fam}"), m.fp(), true);
                check(ctx, &m, &mut rng, "deep-chain", i);
            }
        }
    }
}
