//! Small deterministic PRNG (splitmix64 seeding + xoshiro256**). No external crates.

#[derive(Clone, Debug)]
pub struct Rng {
    s: [u64; 4],
}

pub fn splitmix(x: &mut u64) -> u64 {
    *x = x.wrapping_add(0x9E3779B97F4A7C15);
    let mut z = *x;
    z = (z ^ (z >> 30)).wrapping_mul(0xBF58476D1CE4E5B9);
    z = (z ^ (z >> 27)).wrapping_mul(0x94D049BB133111EB);
    z ^ (z >> 31)
}

/// Mix a list of words into one seed (used to derive per-case generators).
pub fn mix(words: &[u64]) -> u64 {
    let mut h: u64 = 0x243F6A8885A308D3;
    for w in words {
        h ^= *w;
        let mut x = h;
        h = splitmix(&mut x) ^ x.rotate_left(17);
    }
    h
}

pub fn hash_str(s: &str) -> u64 {
    let mut h: u64 = 0xcbf29ce484222325;
    for b in s.as_bytes() {
        h ^= *b as u64;
        h = h.wrapping_mul(0x100000001b3);
    }
    h
}

impl Rng {
    pub fn new(seed: u64) -> Rng {
        let mut x = seed;
        let s = [splitmix(&mut x), splitmix(&mut x), splitmix(&mut x), splitmix(&mut x)];
        Rng { s }
    }
    pub fn next_u64(&mut self) -> u64 {
        let r = self.s[1].wrapping_mul(5).rotate_left(7).wrapping_mul(9);
        let t = self.s[1] << 17;
        self.s[2] ^= self.s[0];
        self.s[3] ^= self.s[1];
        self.s[1] ^= self.s[2];
        self.s[0] ^= self.s[3];
        self.s[2] ^= t;
        self.s[3] = self.s[3].rotate_left(45);
        r
    }
    /// uniform in 0..n (n>0)
    pub fn below(&mut self, n: usize) -> usize {
        debug_assert!(n > 0);
        (self.next_u64() % (n as u64)) as usize
    }
    /// uniform in lo..=hi
    pub fn range(&mut self, lo: i64, hi: i64) -> i64 {
        debug_assert!(hi >= lo);
        let span = (hi - lo) as u64 + 1;
        lo + (self.next_u64() % span) as i64
    }
    pub fn chance(&mut self, num: u32, den: u32) -> bool {
        (self.next_u64() % den as u64) < num as u64
    }
    pub fn coin(&mut self) -> bool {
        self.next_u64() & 1 == 1
    }
    pub fn pick<'a, T>(&mut self, xs: &'a [T]) -> &'a T {
        &xs[self.below(xs.len())]
    }
    pub fn unit_f64(&mut self) -> f64 {
        (self.next_u64() >> 11) as f64 / (1u64 << 53) as f64
    }
    pub fn shuffle<T>(&mut self, xs: &mut [T]) {
        for i in (1..xs.len()).rev() {
            let j = self.below(i + 1);
            xs.swap(i, j);
        }
    }
}
