//! Subtype-graph oracle: plain BFS over the `is` edges of a defs grid. No shared code with libhaystack.

use std::collections::{BTreeMap, BTreeSet, VecDeque};

#[derive(Clone, Debug, Default)]
pub struct Graph {
    /// defined symbols -> their `is` list (symbol names, as written, including undefined ones)
    pub is: BTreeMap<String, Vec<String>>,
}

pub type Set = BTreeSet<String>;

impl Graph {
    pub fn defined(&self, s: &str) -> bool {
        self.is.contains_key(s)
    }
    pub fn supertypes(&self, s: &str) -> Set {
        self.is.get(s).map(|l| l.iter().filter(|x| self.defined(x)).cloned().collect()).unwrap_or_default()
    }
    pub fn all_supertypes(&self, s: &str) -> Set {
        let mut out = Set::new();
        let mut q: VecDeque<String> = self.supertypes(s).into_iter().collect();
        while let Some(x) = q.pop_front() {
            if out.insert(x.clone()) {
                q.extend(self.supertypes(&x));
            }
        }
        out
    }
    /// defs that list `s` in their `is` (s itself need not be defined)
    pub fn subtypes(&self, s: &str) -> Set {
        self.is.iter().filter(|(_, l)| l.iter().any(|x| x == s)).map(|(k, _)| k.clone()).collect()
    }
    pub fn all_subtypes(&self, s: &str) -> Set {
        let mut out = Set::new();
        let mut q: VecDeque<String> = self.subtypes(s).into_iter().collect();
        while let Some(x) = q.pop_front() {
            if out.insert(x.clone()) {
                q.extend(self.subtypes(&x));
            }
        }
        out
    }
    pub fn inheritance(&self, s: &str) -> Set {
        if !self.defined(s) {
            return Set::new();
        }
        let mut out = self.all_supertypes(s);
        out.insert(s.to_string());
        out
    }
    pub fn fits(&self, a: &str, b: &str) -> bool {
        self.defined(b) && self.inheritance(a).contains(b)
    }
    pub fn is_choice(&self, s: &str) -> bool {
        self.is.get(s).is_some_and(|l| l.iter().any(|x| x == "choice"))
    }
    pub fn choices_for(&self, s: &str) -> Set {
        if self.is_choice(s) {
            self.subtypes(s)
        } else {
            Set::new()
        }
    }
    pub fn conjunct_parts(&self, s: &str) -> Set {
        s.split('-').filter(|p| self.defined(p)).map(|p| p.to_string()).collect()
    }
    /// defs reflected by a record: its defined tags, every defined conjunct all of whose parts are marker
    /// tags of the record, and all their supertypes
    pub fn reflect(&self, tags: &[(String, bool)]) -> Set {
        let mut base = Set::new();
        let markers: Set = tags.iter().filter(|(t, m)| *m && self.defined(t)).map(|(t, _)| t.clone()).collect();
        for (t, _) in tags {
            if self.defined(t) {
                base.insert(t.clone());
            }
        }
        for c in self.is.keys() {
            if c.contains('-') {
                let parts: Vec<&str> = c.split('-').collect();
                if parts.iter().all(|p| markers.contains(*p)) {
                    base.insert(c.clone());
                }
            }
        }
        let mut out = base.clone();
        for b in base {
            out.extend(self.all_supertypes(&b));
        }
        out
    }
}
