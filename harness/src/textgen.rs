//! Hostile text generators: mutations of valid documents, nesting ladders, raw bytes.

use crate::prng::Rng;

pub const ZINC_TOKENS: [&str; 66] = [
    "Bin(", "Bin(text/plain", "Span(", "1e+_5", "C(_1,2)", "2.5E-_3kW", "1._5", "-_1", "_1", "e+", "E-", "+23:60 London", "-23:99 New_York", "T23:59:60",
    "+24:00 London", "-99:99 X", "+23:60 UTC", "T25:61:61", "9999-99-99", "Z Zzz",
    "\\uD800", "\\udfff", "\\u0000", "\u{c}", "\u{b}", "\u{1}",
    "[", "]", "{", "}", "<<", ">>", ",", "\n", "\r\n", "\"", "`", ":", "N", "M", "NA", "T", "ver:\"3.0\"", "-", "1e", "\\u12", "\\", "@", "^",
    "C(", ")", "(", "X(\"", "2021-01-01", "T00:00:00", "Z", "+10:00 ", "12:", ".", "_", "INF", "-INF", "NaN", " ", "a", "\u{e9}",
];

pub const FILTER_TOKENS: [&str; 49] = [
    "1e+_5", "1e", "e-", "_", "+23:60 London", "-23:99 New_York", "T23:59:60", "2021-08-06T17:05:00", "\\u00E9", "\\uD800",
    "\u{c}", "\u{b}", "\u{0}",
    "(", ")", " and ", " or ", "not ", "==", "!=", "<", "<=", ">", ">=", "->", "*==", "?", "^", "@", "\"", "`", "-", "1", "a", "true", "false",
    " ", "\n", "\\", "2021-01-01", "12:00:00", "T", "Z", "kW", "%", "=", "!", "*", "\u{e9}",
];

pub const JSON_TOKENS: [&str; 26] = [
    "{", "}", "[", "]", ",", ":", "\"", "\"_kind\"", "\"number\"", "\"grid\"", "\"val\"", "\"dateTime\"", "null", "true", "1e999", "-", "\\u12",
    "\\", "\"tz\"", "\"unit\"", "\"rows\"", "\"cols\"", "\"meta\"", "\"xstr\"", " ", "\u{e9}",
];

/// One small mutation of `data`. Returns the mutated bytes and the mutation's name.
pub fn mutate(rng: &mut Rng, data: &[u8], tokens: &[&str]) -> (Vec<u8>, &'static str) {
    let mut v = data.to_vec();
    let n = v.len();
    let pos = if n == 0 { 0 } else { rng.below(n) };
    match rng.below(11) {
        0 if n > 0 => {
            v[pos] ^= 1 << rng.below(8);
            (v, "bit-flip")
        }
        1 if n > 0 => {
            v[pos] = rng.below(256) as u8;
            (v, "byte-replace")
        }
        2 => {
            v.insert(pos.min(n), rng.below(256) as u8);
            (v, "byte-insert")
        }
        3 if n > 0 => {
            v.remove(pos);
            (v, "byte-delete")
        }
        4 if n > 0 => {
            let len = 1 + rng.below(16.min(n - pos));
            let chunk: Vec<u8> = v[pos..pos + len].to_vec();
            let at = rng.below(n + 1);
            for (k, b) in chunk.into_iter().enumerate() {
                v.insert(at + k, b);
            }
            (v, "range-duplicate")
        }
        5 => {
            let t = rng.pick(tokens).as_bytes().to_vec();
            let at = pos.min(n);
            for (k, b) in t.into_iter().enumerate() {
                v.insert(at + k, b);
            }
            (v, "token-splice")
        }
        6 if n > 0 => {
            v.truncate(pos);
            (v, "truncate")
        }
        7 if n > 1 => {
            let j = rng.below(n);
            v.swap(pos, j);
            (v, "byte-swap")
        }
        8 if n > 0 => {
            // cell-count skew: add or remove a comma near a line
            if rng.coin() {
                v.insert(pos, b',');
                (v, "comma-insert")
            } else if let Some(k) = v[pos..].iter().position(|b| *b == b',') {
                v.remove(pos + k);
                (v, "comma-delete")
            } else {
                (v, "none")
            }
        }
        9 if n > 0 => {
            // drop a terminator: newline, closing bracket or quote
            if let Some(k) = v[pos..].iter().position(|b| matches!(*b, b'\n' | b']' | b'}' | b'>' | b'"' | b'`' | b')')) {
                v.remove(pos + k);
                (v, "terminator-delete")
            } else {
                (v, "none")
            }
        }
        _ if n > 0 => {
            let len = 1 + rng.below(8.min(n - pos));
            v.drain(pos..pos + len);
            (v, "range-delete")
        }
        _ => (v, "none"),
    }
}

pub fn random_bytes(rng: &mut Rng, max: usize) -> Vec<u8> {
    let n = rng.below(max + 1);
    match rng.below(3) {
        0 => (0..n).map(|_| rng.below(256) as u8).collect(),
        1 => (0..n).map(|_| (0x20 + rng.below(0x5f)) as u8).collect(),
        _ => {
            // token soup
            let mut v = Vec::new();
            while v.len() < n {
                v.extend_from_slice(rng.pick(&ZINC_TOKENS).as_bytes());
            }
            v
        }
    }
}

pub fn token_soup(rng: &mut Rng, tokens: &[&str], max: usize) -> String {
    let n = rng.below(max + 1);
    let mut s = String::new();
    while s.len() < n {
        s.push_str(*rng.pick::<&str>(tokens));
    }
    s
}

pub const LADDER_DEPTHS: [usize; 9] = [1, 10, 100, 127, 128, 129, 1000, 10_000, 100_000];

/// A nesting ladder of `depth` openers, a core, and (optionally) the matching closers.
pub fn ladder(open: &str, core: &str, close: &str, depth: usize, closed: bool) -> String {
    let mut s = String::with_capacity(depth * (open.len() + close.len()) + core.len());
    for _ in 0..depth {
        s.push_str(open);
    }
    s.push_str(core);
    if closed {
        for _ in 0..depth {
            s.push_str(close);
        }
    }
    s
}
