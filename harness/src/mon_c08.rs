//! C08 — filter text and filter tree correspond: reference text -> parse gives the prescribed
//! tree; print -> parse is the identity.

use crate::bridge::{observe, to_value_with};
use crate::ctx::{truncate, Ctx};
use crate::model::MVal;
use crate::reffilter::*;
use crate::shrink::shape;
use crate::util::{panic_sig, with_fuel};
use libhaystack::filter::nodes::{And, Cmp, CmpOp, Has, IsA, Missing, Or, Parens, Relation, Term, Visitable, Visitor, WildcardEq};
use libhaystack::filter::path::Path;
use libhaystack::filter::Filter;
use serde_json::json;

pub fn obs_path(p: &Path) -> FPath {
    p.iter().map(|id| id.to_string()).collect()
}

pub fn obs_term(t: &Term) -> FTerm {
    match t {
        Term::Parens(p) => FTerm::Parens(obs_or(&p.or)),
        Term::Has(h) => FTerm::Has(obs_path(&h.path)),
        Term::Missing(m) => FTerm::Missing(obs_path(&m.path)),
        Term::IsA(i) => FTerm::IsA(i.symbol.value.clone()),
        Term::WildcardEq(w) => FTerm::WildcardEq(obs_path(&w.id), w.ref_value.value.clone(), w.ref_value.dis.clone()),
        Term::Relation(r) => FTerm::Relation(r.rel.value.clone(), r.rel_term.as_ref().map(|s| s.value.clone()), r.ref_value.as_ref().map(|r| r.value.clone())),
        Term::Cmp(c) => FTerm::Cmp(
            obs_path(&c.path),
            match c.op {
                CmpOp::Eq => Op::Eq,
                CmpOp::NotEq => Op::Ne,
                CmpOp::LessThan => Op::Lt,
                CmpOp::LessThanEq => Op::Le,
                CmpOp::GreatThan => Op::Gt,
                CmpOp::GreatThanEq => Op::Ge,
            },
            observe(&c.value),
        ),
    }
}

pub fn obs_and(a: &And) -> FAnd {
    FAnd(a.terms.iter().map(obs_term).collect())
}
pub fn obs_or(o: &Or) -> FOr {
    FOr(o.ands.iter().map(obs_and).collect())
}

/// The same tree observed through the library's Visitor protocol (accept_visitor dispatch) instead of the public
/// fields: every node must be handed to the visit method of its own kind.
#[derive(Default)]
struct VisitObs {
    or_out: Option<FOr>,
    and_out: Option<FAnd>,
    term_out: Option<FTerm>,
    calls: usize,
}
impl Visitor for VisitObs {
    fn visit_cond_or(&mut self, node: &Or) {
        self.calls += 1;
        let mut ands = Vec::new();
        for a in &node.ands {
            a.accept_visitor(self);
            ands.extend(self.and_out.take());
        }
        self.or_out = Some(FOr(ands));
    }
    fn visit_cond_and(&mut self, node: &And) {
        self.calls += 1;
        let mut terms = Vec::new();
        for t in &node.terms {
            t.accept_visitor(self);
            terms.extend(self.term_out.take());
        }
        self.and_out = Some(FAnd(terms));
    }
    fn visit_parens(&mut self, node: &Parens) {
        self.calls += 1;
        node.or.accept_visitor(self);
        self.term_out = self.or_out.take().map(FTerm::Parens);
    }
    fn visit_has(&mut self, node: &Has) {
        self.calls += 1;
        self.term_out = Some(FTerm::Has(obs_path(&node.path)));
    }
    fn visit_missing(&mut self, node: &Missing) {
        self.calls += 1;
        self.term_out = Some(FTerm::Missing(obs_path(&node.path)));
    }
    fn visit_is_a(&mut self, node: &IsA) {
        self.calls += 1;
        self.term_out = Some(FTerm::IsA(node.symbol.value.clone()));
    }
    fn visit_wildcard_equals(&mut self, node: &WildcardEq) {
        self.calls += 1;
        self.term_out = Some(obs_term(&Term::WildcardEq(node.clone())));
    }
    fn visit_relation(&mut self, node: &Relation) {
        self.calls += 1;
        self.term_out = Some(obs_term(&Term::Relation(node.clone())));
    }
    fn visit_cmp(&mut self, node: &Cmp) {
        self.calls += 1;
        self.term_out = Some(obs_term(&Term::Cmp(node.clone())));
    }
}

pub fn obs_via_visitor(f: &Filter) -> Option<FOr> {
    let mut v = VisitObs::default();
    f.accept_visitor(&mut v);
    v.or_out
}

/// drop the don't-care components (display name of the Ref operand of `*==`)
fn normalize(o: &FOr) -> FOr {
    FOr(o.0.iter().map(|a| FAnd(a.0.iter().map(|t| match t {
        FTerm::WildcardEq(p, id, _) => FTerm::WildcardEq(p.clone(), id.clone(), None),
        FTerm::Parens(o) => FTerm::Parens(normalize(o)),
        other => other.clone(),
    }).collect())).collect())
}

pub fn fshape_term(t: &FTerm) -> String {
    match t {
        FTerm::Parens(o) => format!("({})", fshape(o)),
        FTerm::Has(p) => format!("has{}", p.len()),
        FTerm::Missing(p) => format!("missing{}", p.len()),
        FTerm::IsA(_) => "isa".into(),
        FTerm::WildcardEq(p, _, d) => format!("wildcard{}{}", p.len(), if d.is_some() { "+dis" } else { "" }),
        FTerm::Relation(_, t, r) => format!("rel{}{}", if t.is_some() { "+term" } else { "" }, if r.is_some() { "+ref" } else { "" }),
        FTerm::Cmp(p, op, v) => format!("cmp{}{}{}", p.len(), op.text(), shape(v)),
    }
}

pub fn fshape(o: &FOr) -> String {
    o.0.iter().map(|a| a.0.iter().map(fshape_term).collect::<Vec<_>>().join("&")).collect::<Vec<_>>().join("|")
}

/// all terms of a filter, flattened (for shrinking)
fn flat_terms(o: &FOr, out: &mut Vec<FTerm>) {
    for a in &o.0 {
        for t in &a.0 {
            out.push(t.clone());
            if let FTerm::Parens(i) = t {
                flat_terms(i, out);
            }
        }
    }
}

fn weight(o: &FOr) -> usize {
    format!("{o:?}").len()
}

pub fn shrink_filter(f: &FOr, fails: &mut dyn FnMut(&FOr) -> bool) -> FOr {
    let mut cur = f.clone();
    let mut calls = 0;
    'outer: loop {
        let mut cands: Vec<FOr> = Vec::new();
        let mut terms = Vec::new();
        flat_terms(&cur, &mut terms);
        for t in &terms {
            cands.push(FOr(vec![FAnd(vec![t.clone()])]));
        }
        // pairs of adjacent terms inside one And, pairs of Ands
        for a in &cur.0 {
            for w in a.0.windows(2) {
                cands.push(FOr(vec![FAnd(w.to_vec())]));
            }
        }
        for w in cur.0.windows(2) {
            cands.push(FOr(w.to_vec()));
        }
        if cur.0.len() == 1 && cur.0[0].0.len() == 1 {
            // a single term: simplify it
            match &cur.0[0].0[0] {
                FTerm::Cmp(p, op, v) => {
                    for c in crate::shrink::candidates(v) {
                        if c.kind() == v.kind() {
                            cands.push(FOr(vec![FAnd(vec![FTerm::Cmp(p.clone(), *op, c)])]));
                        }
                    }
                    if p.len() > 1 {
                        cands.push(FOr(vec![FAnd(vec![FTerm::Cmp(p[..1].to_vec(), *op, v.clone())])]));
                    }
                    if p != &vec!["a".to_string()] && p.len() == 1 {
                        cands.push(FOr(vec![FAnd(vec![FTerm::Cmp(vec!["a".into()], *op, v.clone())])]));
                    }
                }
                FTerm::Has(p) if p.len() > 1 => cands.push(FOr(vec![FAnd(vec![FTerm::Has(p[..p.len() - 1].to_vec())])])),
                FTerm::Missing(p) if p.len() > 1 => cands.push(FOr(vec![FAnd(vec![FTerm::Missing(p[..p.len() - 1].to_vec())])])),
                FTerm::Parens(o) => cands.push(o.clone()),
                _ => {}
            }
        }
        let w = weight(&cur);
        cands.sort_by_key(weight);
        for c in cands {
            if weight(&c) >= w {
                continue;
            }
            calls += 1;
            if calls > 600 {
                break 'outer;
            }
            if fails(&c) {
                cur = c;
                continue 'outer;
            }
        }
        break;
    }
    cur
}

pub fn parse(text: &str) -> Result<Result<Filter, String>, crate::util::Panic> {
    let fuel = 64 * text.len() as u64 + 4096;
    with_fuel(fuel, || Filter::try_from(text).map_err(|e| e.to_string())).result
}

/// Check (a) for one AST and one spelling. Err(class, detail, text)
pub fn check_text_to_tree(f: &FOr, text: &str) -> Result<Filter, (String, String)> {
    match parse(text) {
        Err(p) if p.fuel_site.is_some() => Err(("parse-hang".into(), "parser exceeded its step budget".into())),
        Err(p) => Err((panic_sig(&p), format!("parser panicked: {}", p.msg))),
        Ok(Err(e)) => Err(("rejected".into(), format!("well-formed filter text rejected: {e}"))),
        Ok(Ok(parsed)) => {
            let got = obs_or(&parsed.or);
            if normalize(&got) == normalize(f) {
                match crate::util::catch(|| obs_via_visitor(&parsed)) {
                    Ok(Some(v)) if v == got => Ok(parsed),
                    Ok(v) => Err(("visitor-wrong-tree".into(), format!("the Visitor protocol walks a different tree: {} vs the fields' {}", truncate(&format!("{v:?}"), 300), truncate(&format!("{got:?}"), 300)))),
                    Err(p) => Err((format!("visitor-{}", panic_sig(&p)), p.msg)),
                }
            } else {
                Err(("wrong-tree".into(), format!("parsed tree {} differs from the tree the text was printed from {}", truncate(&format!("{:?}", got), 400), truncate(&format!("{:?}", f), 400))))
            }
        }
    }
}

/// Check (b): Display then parse gives an equal tree.
pub fn check_print_parse(parsed: &Filter) -> Result<(), (String, String, String)> {
    let printed = match crate::util::catch(|| parsed.to_string()) {
        Ok(s) => s,
        Err(p) => return Err((format!("display-{}", panic_sig(&p)), p.msg, String::new())),
    };
    match parse(&printed) {
        Err(p) => Err((format!("reparse-{}", if p.fuel_site.is_some() { "hang".to_string() } else { panic_sig(&p) }), p.msg, printed)),
        Ok(Err(e)) => Err(("reparse-rejected".into(), format!("the filter's own text is rejected: {e}"), printed)),
        Ok(Ok(again)) => {
            if normalize(&obs_or(&again.or)) == normalize(&obs_or(&parsed.or)) && again == *parsed {
                Ok(())
            } else if normalize(&obs_or(&again.or)) == normalize(&obs_or(&parsed.or)) {
                // the library's own == says different although every observable component is equal
                Err(("reparse-unequal-by-eq".into(), "print-then-parse gives a filter that is != the original although all components agree".into(), printed))
            } else {
                Err(("reparse-wrong-tree".into(), format!("print-then-parse changed the tree: {} vs {}", truncate(&format!("{:?}", obs_or(&again.or)), 300), truncate(&format!("{:?}", obs_or(&parsed.or)), 300)), printed))
            }
        }
    }
}

fn one_case(ctx: &mut Ctx, f: &FOr, rng: &mut crate::prng::Rng) {
    let text = print_filter(rng, f, true);
    if ctx.wants_sample("filter") && text.len() < 160 {
        ctx.sample("filter", json!({"text": text, "shape": fshape(f)}));
    }
    match check_text_to_tree(f, &text) {
        Err((class, detail)) => {
            let base = rng.next_u64();
            let mut fails = |c: &FOr| {
                (0..4u64).any(|k| {
                    let mut r = crate::prng::Rng::new(crate::prng::mix(&[base, k]));
                    let t = print_filter(&mut r, c, true);
                    matches!(check_text_to_tree(c, &t), Err((cl, _)) if cl == class)
                })
            };
            let min = if ctx.shrinks < 40 {
                ctx.shrinks += 1;
                shrink_filter(f, &mut fails)
            } else {
                f.clone()
            };
            let mut r = crate::prng::Rng::new(base);
            let mtext = print_filter(&mut r, &min, false);
            ctx.violation(&format!("text->tree:{}:{}", class, fshape(&min)), &format!("{} — {}", fshape(&min), detail), json!({"text": truncate(&text, 600), "minimal_filter": truncate(&mtext, 300)}));
        }
        Ok(parsed) => {
            if let Err((class, detail, printed)) = check_print_parse(&parsed) {
                let mut fails = |c: &FOr| {
                    let mut r = crate::prng::Rng::new(7);
                    let t = print_filter(&mut r, c, false);
                    match check_text_to_tree(c, &t) {
                        Ok(p) => matches!(check_print_parse(&p), Err((cl, _, _)) if cl == class),
                        Err(_) => false,
                    }
                };
                let min = if ctx.shrinks < 40 {
                    ctx.shrinks += 1;
                    shrink_filter(f, &mut fails)
                } else {
                    f.clone()
                };
                ctx.violation(&format!("print->parse:{}:{}", class, fshape(&min)), &format!("{} — {}", fshape(&min), detail), json!({"text": truncate(&text, 400), "printed": truncate(&printed, 400)}));
            }
        }
    }
}

/// every filter with <= 3 terms over tags {a,b,c} and a small literal set (bounded-exhaustive part)
pub fn small_terms() -> Vec<FTerm> {
    let lits = vec![MVal::num(5.0), MVal::str("x"), MVal::Bool(true), MVal::Ref("r".into(), None), MVal::Date(2020, 1, 2), MVal::Num(crate::model::F(5.0), Some("meter".into()))];
    let mut out = Vec::new();
    for tag in ["a", "b", "c"] {
        out.push(FTerm::Has(vec![tag.into()]));
        out.push(FTerm::Missing(vec![tag.into()]));
    }
    out.push(FTerm::Has(vec!["a".into(), "b".into()]));
    out.push(FTerm::Missing(vec!["a".into(), "b".into(), "c".into()]));
    for op in OPS {
        for l in &lits {
            out.push(FTerm::Cmp(vec!["a".into()], op, l.clone()));
        }
    }
    out.push(FTerm::Cmp(vec!["a".into(), "b".into()], Op::Eq, MVal::num(5.0)));
    out.push(FTerm::WildcardEq(vec!["a".into()], "r".into(), None));
    out
}

pub fn run(ctx: &mut Ctx) {
    // bounded-exhaustive: all trees of shape t, t and t, t or t, t and t or t, (t or t) and t ... over the small term set
    let terms = small_terms();
    ctx.note("small_terms", json!(terms.len()));
    let nt = terms.len() as u64;
    let total = nt + nt * nt * 2 + nt * nt * nt * 3;
    let per_shard_quick = 6_000u64;
    let mut k = ctx.shard;
    let stride = ctx.nshards.max(1);
    let mut done = 0u64;
    while k < total {
        let limit = if ctx.quick() { per_shard_quick } else { u64::MAX };
        if done >= limit {
            break;
        }
        // quick samples the space with a stride; thorough enumerates it completely
        let idx = if ctx.quick() { (k * 7919) % total } else { k };
        k += stride;
        done += 1;
        if !ctx.begin("small", idx) {
            continue;
        }
        let f = if idx < nt {
            FOr(vec![FAnd(vec![terms[idx as usize].clone()])])
        } else if idx < nt + nt * nt * 2 {
            let j = idx - nt;
            let (form, j) = (j / (nt * nt), j % (nt * nt));
            let (x, y) = (terms[(j / nt) as usize].clone(), terms[(j % nt) as usize].clone());
            if form == 0 {
                FOr(vec![FAnd(vec![x, y])])
            } else {
                FOr(vec![FAnd(vec![x]), FAnd(vec![y])])
            }
        } else {
            let j = idx - nt - nt * nt * 2;
            let (form, j) = (j / (nt * nt * nt), j % (nt * nt * nt));
            let (x, y, z) = (terms[(j / (nt * nt)) as usize].clone(), terms[((j / nt) % nt) as usize].clone(), terms[(j % nt) as usize].clone());
            match form {
                0 => FOr(vec![FAnd(vec![x, y]), FAnd(vec![z])]),                                    // x and y or z
                1 => FOr(vec![FAnd(vec![x]), FAnd(vec![y, z])]),                                    // x or y and z
                _ => FOr(vec![FAnd(vec![FTerm::Parens(FOr(vec![FAnd(vec![x]), FAnd(vec![y])])), z])]), // (x or y) and z
            }
        };
        let mut rng = ctx.case_rng("small", idx);
        ctx.eval("small", filter_fp(&f), true);
        one_case(ctx, &f, &mut rng);
    }
    ctx.note("small_space_size", json!(total));
    // wide filters: many parenthesised sibling groups (more than 128 in total, all shallow)
    if ctx.shard == 0 {
        for (i, n) in [1usize, 10, 127, 128, 129, 200, 1000].iter().enumerate() {
            if !ctx.begin("wide", i as u64) {
                continue;
            }
            let mut rng = ctx.case_rng("wide", i as u64);
            let group = |k: usize| FTerm::Parens(FOr(vec![FAnd(vec![FTerm::Cmp(vec!["id".into()], Op::Eq, MVal::Ref(format!("r{k}"), None))]), FAnd(vec![FTerm::Has(vec!["a".into()])])]));
            let f = if i % 2 == 0 { FOr(vec![FAnd((0..*n).map(group).collect())]) } else { FOr((0..*n).map(|k| FAnd(vec![group(k), FTerm::Parens(FOr(vec![FAnd(vec![FTerm::Missing(vec!["b".into()])])]))])).collect()) };
            ctx.eval(&format!("wide:groups{n}"), filter_fp(&f), true);
            one_case(ctx, &f, &mut rng);
        }
    }
    // random deep filters with every literal kind
    let n = ctx.n(8_000, 200_000);
    for i in 0..n {
        if !ctx.begin("random", i) {
            continue;
        }
        let mut rng = ctx.case_rng("random", i);
        let f = gen_or(&mut rng, 3, true);
        ctx.eval("random", filter_fp(&f), true);
        let mut ts = Vec::new();
        flat_terms(&f, &mut ts);
        for t in &ts {
            ctx.stratum(&format!("term:{}", fshape_term(t).split(|c: char| !c.is_ascii_alphabetic()).next().unwrap_or("")));
            if let FTerm::Cmp(_, _, v) = t {
                ctx.stratum(&format!("literal:{}", v.kind_name()));
            }
        }
        one_case(ctx, &f, &mut rng);
    }
    let _ = to_value_with;
}
