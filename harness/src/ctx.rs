//! Run context shared by all monitors: deterministic case streams, progress marker for crash
//! attribution, evaluation / stratum / distinctness accounting, violation collection.

use crate::prng::{hash_str, mix, Rng};
use serde_json::{json, Map, Value as J};
use std::collections::{BTreeMap, HashSet};
use std::io::Write;
use std::os::unix::fs::FileExt;
use std::time::{Duration, Instant};

#[derive(Clone, Copy, PartialEq, Eq, Debug)]
pub enum Tier {
    Quick,
    Thorough,
}

/// Shared with the CPU-time monitor thread (main.rs): a counter that moves whenever a new case is announced, the case
/// itself, and the largest CPU time one case was seen to take.
pub static CASE_SEQ: std::sync::atomic::AtomicU64 = std::sync::atomic::AtomicU64::new(0);
pub static CASE_NOW: std::sync::Mutex<(String, u64)> = std::sync::Mutex::new((String::new(), 0));
pub static MAX_CASE_CPU_MS: std::sync::atomic::AtomicU64 = std::sync::atomic::AtomicU64::new(0);

pub struct Violation {
    pub sig: String,
    pub count: u64,
    pub what: String,
    pub stream: String,
    pub index: u64,
    pub witness: J,
}

pub struct Ctx {
    pub prop: String,
    pub tier: Tier,
    pub seed: u64,
    pub shard: u64,
    pub nshards: u64,
    /// scale factor for case counts (driver-chosen), 1.0 = the tier's nominal size
    pub scale: f64,
    pub only: Option<(String, u64)>,
    pub resume_after: Option<(String, u64)>,
    pub streams: Option<Vec<String>>,
    pub budget: Duration,
    pub selftest: Option<String>,
    pub verbose: bool,
    t0: Instant,
    progress: Option<std::fs::File>,
    resumed: bool,

    pub evaluations: u64,
    distinct: HashSet<u64>,
    pub strata: BTreeMap<String, u64>,
    pub samples: Vec<J>,
    sample_strata: HashSet<String>,
    pub violations: BTreeMap<String, Violation>,
    pub notes: Map<String, J>,
    pub dontcare: BTreeMap<String, u64>,
    pub truncated_by_budget: bool,
    pub shrinks: u32,
    pub fp_file: Option<String>,
    cur: (String, u64),
}

impl Ctx {
    pub fn new(prop: &str, tier: Tier, seed: u64, shard: u64, nshards: u64) -> Ctx {
        Ctx {
            prop: prop.to_string(),
            tier,
            seed,
            shard,
            nshards,
            scale: 1.0,
            only: None,
            resume_after: None,
            streams: None,
            budget: Duration::from_secs(3600),
            selftest: None,
            verbose: false,
            t0: Instant::now(),
            progress: None,
            resumed: true,
            evaluations: 0,
            distinct: HashSet::new(),
            strata: BTreeMap::new(),
            samples: Vec::new(),
            sample_strata: HashSet::new(),
            violations: BTreeMap::new(),
            notes: Map::new(),
            dontcare: BTreeMap::new(),
            truncated_by_budget: false,
            shrinks: 0,
            fp_file: None,
            cur: (String::new(), 0),
        }
    }

    pub fn set_progress_file(&mut self, path: &str) {
        self.progress = std::fs::OpenOptions::new()
            .create(true)
            .write(true)
            .truncate(true)
            .open(path)
            .ok();
    }

    pub fn set_resume(&mut self, stream: &str, index: u64) {
        self.resume_after = Some((stream.to_string(), index));
        self.resumed = false;
    }

    pub fn quick(&self) -> bool {
        self.tier == Tier::Quick
    }

    /// Number of cases for a stream: `q` in quick, `t` in thorough (per shard), scaled.
    pub fn n(&self, q: u64, t: u64) -> u64 {
        let base = if self.quick() { q } else { t };
        ((base as f64 * self.scale).ceil() as u64).max(1)
    }

    /// Is this stream selected at all (by --streams / --only / resume)?
    pub fn wants_stream(&self, stream: &str) -> bool {
        if let Some((s, _)) = &self.only {
            return s == stream;
        }
        if let Some(list) = &self.streams {
            return list.iter().any(|s| s == stream);
        }
        true
    }

    /// Deterministic generator for case `index` of `stream` on this shard.
    pub fn case_rng(&self, stream: &str, index: u64) -> Rng {
        Rng::new(mix(&[
            self.seed,
            hash_str(&self.prop),
            hash_str(stream),
            self.shard,
            index,
        ]))
    }

    /// Announce a case. Returns false if the case must be skipped (replay of another case,
    /// resume after a crash, stream not selected, or wall-clock budget spent).
    pub fn begin(&mut self, stream: &str, index: u64) -> bool {
        if !self.wants_stream(stream) {
            return false;
        }
        if let Some((s, i)) = &self.only {
            if s != stream || *i != index {
                return false;
            }
        }
        if !self.resumed {
            if let Some((s, i)) = &self.resume_after {
                if s == stream && *i == index {
                    self.resumed = true;
                }
            }
            return false;
        }
        if self.only.is_none() && self.t0.elapsed() > self.budget {
            self.truncated_by_budget = true;
            return false;
        }
        if let Some(f) = &self.progress {
            let mut buf = [b' '; 96];
            let s = format!("{} {}\n", stream, index);
            let b = s.as_bytes();
            let n = b.len().min(95);
            buf[..n].copy_from_slice(&b[..n]);
            buf[95] = b'\n';
            let _ = f.write_at(&buf, 0);
        }
        self.cur = (stream.to_string(), index);
        if let Ok(mut c) = CASE_NOW.lock() {
            if c.0 != stream {
                c.0 = stream.to_string();
            }
            c.1 = index;
        }
        CASE_SEQ.fetch_add(1, std::sync::atomic::Ordering::Relaxed);
        true
    }

    pub fn out_of_time(&mut self) -> bool {
        if self.only.is_none() && self.t0.elapsed() > self.budget {
            self.truncated_by_budget = true;
            true
        } else {
            false
        }
    }

    /// Account one evaluation. `fp` is the case fingerprint, `nontrivial` the per-property rule.
    pub fn eval(&mut self, stratum: &str, fp: u64, nontrivial: bool) {
        self.evaluations += 1;
        *self.strata.entry(stratum.to_string()).or_insert(0) += 1;
        if nontrivial && self.distinct.len() < 4_000_000 {
            self.distinct.insert(fp);
        }
    }

    pub fn stratum(&mut self, stratum: &str) {
        *self.strata.entry(stratum.to_string()).or_insert(0) += 1;
    }

    pub fn dont_care(&mut self, why: &str) {
        *self.dontcare.entry(why.to_string()).or_insert(0) += 1;
    }

    /// Keep a few literal samples, at most one per stratum name, at most 10.
    pub fn sample(&mut self, stratum: &str, s: J) {
        if self.samples.len() < 10 && !self.sample_strata.contains(stratum) {
            self.sample_strata.insert(stratum.to_string());
            self.samples.push(json!({"stratum": stratum, "case": s}));
        }
    }

    pub fn wants_sample(&self, stratum: &str) -> bool {
        self.samples.len() < 10 && !self.sample_strata.contains(stratum)
    }

    pub fn violation(&mut self, sig: &str, what: &str, witness: J) {
        let (stream, index) = self.cur.clone();
        if let Some(v) = self.violations.get_mut(sig) {
            v.count += 1;
            return;
        }
        let v = Violation {
            sig: sig.to_string(),
            count: 1,
            what: truncate(what, 600),
            stream,
            index,
            witness,
        };
        // stream it out immediately so it survives a later crash of this worker
        let line = json!({"sig": v.sig, "what": v.what, "stream": v.stream, "index": v.index,
            "shard": self.shard, "witness": v.witness});
        println!("V {}", line);
        let _ = std::io::stdout().flush();
        if self.verbose {
            eprintln!("violation {}: {}", v.sig, v.what);
        }
        self.violations.insert(sig.to_string(), v);
    }

    pub fn note(&mut self, key: &str, v: J) {
        self.notes.insert(key.to_string(), v);
    }

    pub fn note_max(&mut self, key: &str, v: f64) {
        let cur = self.notes.get(key).and_then(|j| j.as_f64()).unwrap_or(f64::MIN);
        if v > cur {
            self.notes.insert(key.to_string(), json!(v));
        }
    }

    pub fn note_add(&mut self, key: &str, v: u64) {
        let cur = self.notes.get(key).and_then(|j| j.as_u64()).unwrap_or(0);
        self.notes.insert(key.to_string(), json!(cur + v));
    }

    pub fn finish(&mut self) {
        let viols: Vec<J> = self
            .violations
            .values()
            .map(|v| {
                json!({"sig": v.sig, "count": v.count, "what": v.what, "stream": v.stream,
                "index": v.index, "shard": self.shard, "witness": v.witness})
            })
            .collect();
        // exact distinct counting across shards: dump the fingerprints, the driver merges them
        if let Some(path) = &self.fp_file {
            let mut v: Vec<u64> = self.distinct.iter().cloned().collect();
            v.sort_unstable();
            let mut bytes = Vec::with_capacity(v.len() * 8);
            for x in &v {
                bytes.extend_from_slice(&x.to_le_bytes());
            }
            let _ = std::fs::write(path, bytes);
        }
        let mc = MAX_CASE_CPU_MS.load(std::sync::atomic::Ordering::Relaxed);
        if mc > 0 {
            self.notes.insert("max_cpu_seconds_spent_in_one_case".to_string(), json!(mc as f64 / 1000.0));
        }
        let out = json!({
            "prop": self.prop,
            "shard": self.shard,
            "evaluations": self.evaluations,
            "distinct": self.distinct.len(),
            "strata": self.strata,
            "samples": self.samples,
            "violations": viols,
            "notes": J::Object(self.notes.clone()),
            "dontcare": self.dontcare,
            "truncated_by_budget": self.truncated_by_budget,
            "wall_s": self.t0.elapsed().as_secs_f64(),
        });
        println!("RESULT {}", out);
        let _ = std::io::stdout().flush();
    }
}

pub fn truncate(s: &str, n: usize) -> String {
    if s.chars().count() <= n {
        s.to_string()
    } else {
        let t: String = s.chars().take(n).collect();
        format!("{}…[{} chars]", t, s.chars().count())
    }
}
