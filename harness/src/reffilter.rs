//! Harness-owned filter AST, printer with random legal spacing, generators, and a reference
//! evaluator implementing exactly the semantics stated in C07.

use crate::model::*;
use crate::prng::Rng;
use crate::refzinc::Writer;

pub type FPath = Vec<String>;

#[derive(Clone, Copy, Debug, PartialEq, Eq)]
pub enum Op {
    Eq,
    Ne,
    Lt,
    Le,
    Gt,
    Ge,
}

pub const OPS: [Op; 6] = [Op::Eq, Op::Ne, Op::Lt, Op::Le, Op::Gt, Op::Ge];

impl Op {
    pub fn text(self) -> &'static str {
        match self {
            Op::Eq => "==",
            Op::Ne => "!=",
            Op::Lt => "<",
            Op::Le => "<=",
            Op::Gt => ">",
            Op::Ge => ">=",
        }
    }
}

#[derive(Clone, Debug, PartialEq)]
pub enum FTerm {
    Parens(FOr),
    Has(FPath),
    Missing(FPath),
    IsA(String),
    /// path, ref id, ref dis (dis is a don't-care for evaluation and for the parsed tree)
    WildcardEq(FPath, String, Option<String>),
    /// rel, rel term, ref id
    Relation(String, Option<String>, Option<String>),
    Cmp(FPath, Op, MVal),
}

#[derive(Clone, Debug, PartialEq)]
pub struct FAnd(pub Vec<FTerm>);
#[derive(Clone, Debug, PartialEq)]
pub struct FOr(pub Vec<FAnd>);

pub const KEYWORDS: [&str; 5] = ["and", "or", "not", "true", "false"];

pub fn gen_tag(rng: &mut Rng) -> String {
    loop {
        let t = if rng.chance(3, 4) {
            const POOL: [&str; 12] = ["a", "b", "c", "site", "equip", "point", "dis", "x1", "aB_9", "andy", "orb", "nota"];
            rng.pick(&POOL).to_string()
        } else {
            crate::gen::gen_id(rng)
        };
        if !KEYWORDS.contains(&t.as_str()) {
            return t;
        }
    }
}

pub fn gen_path(rng: &mut Rng) -> FPath {
    let n = match rng.below(10) {
        0..=5 => 1,
        6 | 7 => 2,
        8 => 3,
        _ => 4,
    };
    (0..n).map(|_| gen_tag(rng)).collect()
}

/// A literal of a kind the filter syntax admits.
pub fn gen_literal(rng: &mut Rng) -> MVal {
    match rng.below(10) {
        0 => MVal::Bool(rng.coin()),
        1 | 2 => loop {
            if let MVal::Num(f, u) = crate::gen::gen_number(rng) {
                if f.0.is_finite() {
                    return MVal::Num(f, u);
                }
            }
        },
        3 => MVal::Str(crate::gen::gen_string(rng)),
        4 => MVal::Uri(crate::gen::gen_string_with(rng, false)),
        5 => {
            let id = crate::gen::gen_ref_id(rng);
            let dis = if rng.chance(1, 3) { Some(crate::gen::gen_string(rng)) } else { None };
            MVal::Ref(id, dis)
        }
        6 => MVal::Symbol(crate::gen::gen_symbol_body(rng)),
        7 => crate::gen::gen_date(rng),
        8 => crate::gen::gen_time(rng),
        _ => crate::gen::gen_datetime(rng),
    }
}

pub fn gen_term(rng: &mut Rng, depth: usize, with_ns_terms: bool) -> FTerm {
    let k = rng.below(if depth > 0 { 12 } else { 10 });
    match k {
        0 | 1 => FTerm::Has(gen_path(rng)),
        2 => FTerm::Missing(gen_path(rng)),
        3..=6 => FTerm::Cmp(gen_path(rng), *rng.pick(&OPS), gen_literal(rng)),
        7 => FTerm::WildcardEq(gen_path(rng), crate::gen::gen_ref_id(rng), if rng.chance(1, 4) { Some(crate::gen::gen_string(rng)) } else { None }),
        8 if with_ns_terms => FTerm::IsA(crate::gen::gen_symbol_body(rng)),
        9 if with_ns_terms => {
            let term = if rng.coin() { Some(crate::gen::gen_symbol_body(rng)) } else { None };
            let r = if rng.coin() { Some(crate::gen::gen_ref_id(rng)) } else { None };
            FTerm::Relation(gen_tag(rng), term, r)
        }
        8 | 9 => FTerm::Has(gen_path(rng)),
        _ => FTerm::Parens(gen_or(rng, depth - 1, with_ns_terms)),
    }
}

pub fn gen_or(rng: &mut Rng, depth: usize, with_ns_terms: bool) -> FOr {
    let nands = match rng.below(6) {
        0..=2 => 1,
        3 | 4 => 2,
        _ => 3,
    };
    FOr((0..nands)
        .map(|_| {
            let nt = match rng.below(6) {
                0..=2 => 1,
                3 | 4 => 2,
                _ => 3,
            };
            FAnd((0..nt).map(|_| gen_term(rng, depth, with_ns_terms)).collect())
        })
        .collect())
}

// ---------------------------------------------------------------------------------------------
// printer
// ---------------------------------------------------------------------------------------------

pub struct Printer<'a> {
    pub rng: &'a mut Rng,
    pub vary: bool,
    pub out: String,
}

impl Printer<'_> {
    fn ws1(&mut self) {
        // at least one whitespace character
        if self.vary {
            match self.rng.below(8) {
                0 => self.out.push_str("  "),
                1 => self.out.push('\n'),
                2 => self.out.push('\t'),
                3 => self.out.push_str(" \r\n "),
                _ => self.out.push(' '),
            }
        } else {
            self.out.push(' ');
        }
    }
    fn ws0(&mut self) {
        // optional whitespace
        if self.vary && self.rng.chance(1, 2) {
            self.ws1();
        }
    }
    fn path(&mut self, p: &FPath) {
        for (i, s) in p.iter().enumerate() {
            if i > 0 {
                if self.vary && self.rng.chance(1, 6) {
                    self.ws1();
                }
                self.out.push_str("->");
                if self.vary && self.rng.chance(1, 6) {
                    self.ws1();
                }
            }
            self.out.push_str(s);
        }
    }
    fn literal(&mut self, v: &MVal) {
        match v {
            MVal::Bool(b) => self.out.push_str(if *b { "true" } else { "false" }),
            other => {
                let mut w = Writer::new(self.rng, self.vary);
                w.val(other);
                let t = w.out;
                self.out.push_str(&t);
            }
        }
    }
    fn term(&mut self, t: &FTerm) {
        match t {
            FTerm::Parens(or) => {
                self.out.push('(');
                self.ws0();
                self.or(or);
                self.ws0();
                self.out.push(')');
            }
            FTerm::Has(p) => self.path(p),
            FTerm::Missing(p) => {
                self.out.push_str("not");
                self.ws1();
                self.path(p);
            }
            FTerm::IsA(s) => {
                self.out.push('^');
                self.out.push_str(s);
            }
            FTerm::WildcardEq(p, id, dis) => {
                self.path(p);
                self.ws0();
                self.out.push_str("*==");
                self.ws0();
                self.literal(&MVal::Ref(id.clone(), dis.clone()));
            }
            FTerm::Relation(rel, term, r) => {
                self.out.push_str(rel);
                self.out.push('?');
                if let Some(t) = term {
                    self.ws0();
                    self.out.push('^');
                    self.out.push_str(t);
                }
                if let Some(r) = r {
                    self.ws0();
                    self.out.push('@');
                    self.out.push_str(r);
                }
            }
            FTerm::Cmp(p, op, v) => {
                self.path(p);
                self.ws0();
                self.out.push_str(op.text());
                self.ws0();
                self.literal(v);
            }
        }
    }
    fn and(&mut self, a: &FAnd) {
        for (i, t) in a.0.iter().enumerate() {
            if i > 0 {
                self.ws1();
                self.out.push_str("and");
                self.ws1();
            }
            self.term(t);
        }
    }
    pub fn or(&mut self, o: &FOr) {
        for (i, a) in o.0.iter().enumerate() {
            if i > 0 {
                self.ws1();
                self.out.push_str("or");
                self.ws1();
            }
            self.and(a);
        }
    }
}

pub fn print_filter(rng: &mut Rng, f: &FOr, vary: bool) -> String {
    let mut p = Printer { rng, vary, out: String::new() };
    if vary && p.rng.chance(1, 8) {
        p.ws1();
    }
    p.or(f);
    if vary && p.rng.chance(1, 8) {
        p.ws1();
    }
    p.out
}

// ---------------------------------------------------------------------------------------------
// reference evaluator (C07 statement semantics)
// ---------------------------------------------------------------------------------------------

/// Three-valued: Some(b) = the statement fixes the truth value; None = left open (don't-care).
pub type Tri = Option<bool>;

pub trait RefLookup {
    /// record that a Ref points to (for `*==` chains)
    fn deref(&self, id: &str) -> Option<MDict>;
}

pub struct NoRefs;
impl RefLookup for NoRefs {
    fn deref(&self, _: &str) -> Option<MDict> {
        None
    }
}

pub fn resolve(rec: &MDict, path: &FPath) -> MVal {
    let mut cur = MVal::Dict(rec.clone());
    for seg in path {
        cur = match &cur {
            MVal::Dict(d) => d.get(seg).cloned().unwrap_or(MVal::Null),
            _ => MVal::Null,
        };
        if cur == MVal::Null {
            break;
        }
    }
    cur
}

fn same_kind(a: &MVal, b: &MVal) -> bool {
    a.kind() == b.kind()
}

/// equality by kind and payload (Ref by id). None when the statement leaves it open.
fn eq_vals(a: &MVal, b: &MVal) -> Tri {
    if !same_kind(a, b) {
        return Some(false);
    }
    match (a, b) {
        (MVal::Ref(x, _), MVal::Ref(y, _)) => Some(x == y),
        (MVal::Num(x, ux), MVal::Num(y, uy)) => Some(x.0 == y.0 && ux == uy),
        (MVal::DateTime(x), MVal::DateTime(y)) => {
            let same_instant = x.secs == y.secs && x.nanos == y.nanos;
            if same_instant && x.tz != y.tz {
                None // equal instants in different zones: left open
            } else {
                Some(same_instant)
            }
        }
        (MVal::Coord(a1, a2), MVal::Coord(b1, b2)) => Some(a1.0 == b1.0 && a2.0 == b2.0),
        _ => Some(a == b),
    }
}

fn ord_vals(a: &MVal, b: &MVal) -> Option<std::cmp::Ordering> {
    match (a, b) {
        (MVal::Num(x, ux), MVal::Num(y, uy)) if ux == uy => x.0.partial_cmp(&y.0),
        (MVal::Str(x), MVal::Str(y)) => Some(x.cmp(y)),
        (MVal::Date(..), MVal::Date(..)) | (MVal::Time(..), MVal::Time(..)) => {
            let key = |v: &MVal| match v {
                MVal::Date(y, m, d) => (*y as i64, *m, *d, 0u32),
                MVal::Time(h, m, s, n) => (*h as i64, *m, *s, *n),
                _ => unreachable!(),
            };
            Some(key(a).cmp(&key(b)))
        }
        (MVal::DateTime(x), MVal::DateTime(y)) => Some((x.secs, x.nanos).cmp(&(y.secs, y.nanos))),
        _ => None,
    }
}

fn cmp_one(v: &MVal, op: Op, lit: &MVal) -> Tri {
    if *v == MVal::Null {
        return Some(false);
    }
    match op {
        Op::Eq => eq_vals(v, lit),
        Op::Ne => eq_vals(v, lit).map(|b| !b),
        _ => {
            if !same_kind(v, lit) {
                return Some(false);
            }
            match (v, lit) {
                (MVal::Num(_, ux), MVal::Num(_, uy)) if ux != uy => return None, // different units: left open
                (MVal::Num(..), _) | (MVal::Str(_), _) | (MVal::Date(..), _) | (MVal::Time(..), _) | (MVal::DateTime(_), _) => {}
                _ => return None, // kinds for which the language defines no order: left open
            }
            let o = ord_vals(v, lit)?;
            use std::cmp::Ordering::*;
            Some(match op {
                Op::Lt => o == Less,
                Op::Le => o != Greater,
                Op::Gt => o == Greater,
                Op::Ge => o != Less,
                _ => unreachable!(),
            })
        }
    }
}

fn cmp_val(v: &MVal, op: Op, lit: &MVal) -> Tri {
    match v {
        MVal::List(l) if !matches!(lit, MVal::List(_)) => {
            // holds if some element does
            let mut open = false;
            for e in l {
                match cmp_val(e, op, lit) {
                    Some(true) => return Some(true),
                    None => open = true,
                    Some(false) => {}
                }
            }
            if open {
                None
            } else {
                Some(false)
            }
        }
        _ => cmp_one(v, op, lit),
    }
}

fn tri_and(xs: impl Iterator<Item = Tri>) -> Tri {
    let mut open = false;
    for x in xs {
        match x {
            Some(false) => return Some(false),
            None => open = true,
            Some(true) => {}
        }
    }
    if open {
        None
    } else {
        Some(true)
    }
}

fn tri_or(xs: impl Iterator<Item = Tri>) -> Tri {
    let mut open = false;
    for x in xs {
        match x {
            Some(true) => return Some(true),
            None => open = true,
            Some(false) => {}
        }
    }
    if open {
        None
    } else {
        Some(false)
    }
}

pub fn eval_term(t: &FTerm, rec: &MDict, refs: &dyn RefLookup) -> Tri {
    match t {
        FTerm::Parens(o) => eval_or(o, rec, refs),
        FTerm::Has(p) => Some(resolve(rec, p) != MVal::Null),
        FTerm::Missing(p) => Some(resolve(rec, p) == MVal::Null),
        // evaluated against the empty default namespace: nothing is defined, nothing fits
        FTerm::IsA(_) => Some(false),
        FTerm::Relation(..) => Some(false),
        FTerm::WildcardEq(p, id, _) => {
            // follow the refs the path resolves to until the target is found, a ref repeats or the chain ends
            let mut seen: Vec<String> = Vec::new();
            let mut cur = resolve(rec, p);
            loop {
                match &cur {
                    MVal::Ref(r, _) => {
                        if r == id {
                            return Some(true);
                        }
                        if seen.contains(r) {
                            return Some(false);
                        }
                        seen.push(r.clone());
                        match refs.deref(r) {
                            Some(d) if !d.is_empty() => cur = resolve(&d, p),
                            Some(_) => return Some(false),
                            None => return Some(false),
                        }
                    }
                    _ => return Some(false),
                }
            }
        }
        FTerm::Cmp(p, op, lit) => cmp_val(&resolve(rec, p), *op, lit),
    }
}

pub fn eval_and(a: &FAnd, rec: &MDict, refs: &dyn RefLookup) -> Tri {
    tri_and(a.0.iter().map(|t| eval_term(t, rec, refs)))
}

pub fn eval_or(o: &FOr, rec: &MDict, refs: &dyn RefLookup) -> Tri {
    tri_or(o.0.iter().map(|a| eval_and(a, rec, refs)))
}

/// fingerprint of a filter AST
pub fn filter_fp(o: &FOr) -> u64 {
    crate::prng::hash_str(&format!("{o:?}"))
}
