//! Greedy structural shrinking of model values, and the abstract "shape" used in finding signatures.

use crate::gen::string_sig_class;
use crate::model::*;

fn simpler_strings(s: &str) -> Vec<String> {
    let chars: Vec<char> = s.chars().collect();
    let mut out = Vec::new();
    if chars.is_empty() {
        return out;
    }
    out.push(String::new());
    if chars.len() > 1 {
        out.push(chars[..chars.len() / 2].iter().collect());
        out.push(chars[chars.len() / 2..].iter().collect());
        // drop one char at a time (bounded)
        for i in 0..chars.len().min(24) {
            let mut c = chars.clone();
            c.remove(i);
            out.push(c.into_iter().collect());
        }
    }
    // simplify one char to 'a'
    for i in 0..chars.len().min(8) {
        if chars[i] != 'a' {
            let mut c = chars.clone();
            c[i] = 'a';
            out.push(c.into_iter().collect());
        }
    }
    out
}

fn dict_candidates(d: &MDict) -> Vec<MDict> {
    let mut out = Vec::new();
    if d.is_empty() {
        return out;
    }
    out.push(MDict::new());
    for k in d.keys() {
        let mut c = d.clone();
        c.remove(k);
        out.push(c);
    }
    for (k, v) in d {
        for cv in candidates(v) {
            let mut c = d.clone();
            c.insert(k.clone(), cv);
            out.push(c);
        }
        if k != "a" && !d.contains_key("a") {
            let mut c = d.clone();
            let v = c.remove(k).unwrap();
            c.insert("a".to_string(), v);
            out.push(c);
        }
    }
    out
}

/// Values strictly "simpler" than `v` (fewer nodes, shorter strings, simpler scalars).
pub fn candidates(v: &MVal) -> Vec<MVal> {
    let mut out = Vec::new();
    match v {
        MVal::Null => {}
        MVal::Marker | MVal::Remove | MVal::Na | MVal::Bool(_) => {}
        MVal::Num(f, u) => {
            if u.is_some() {
                out.push(MVal::Num(*f, None));
            }
            if f.0.is_finite() && f.0 != 1.0 {
                out.push(MVal::Num(F(1.0), u.clone()));
                if f.0.fract() != 0.0 {
                    out.push(MVal::Num(F(f.0.trunc()), u.clone()));
                }
            }
        }
        MVal::Str(s) => out.extend(simpler_strings(s).into_iter().map(MVal::Str)),
        MVal::Uri(s) => out.extend(simpler_strings(s).into_iter().map(MVal::Uri)),
        MVal::Symbol(s) => {
            if s != "a" {
                out.push(MVal::Symbol("a".into()))
            }
        }
        MVal::Ref(id, dis) => {
            if dis.is_some() {
                out.push(MVal::Ref(id.clone(), None));
            }
            if id != "a" {
                out.push(MVal::Ref("a".into(), dis.clone()));
            }
            if let Some(d) = dis {
                out.extend(simpler_strings(d).into_iter().map(|x| MVal::Ref(id.clone(), Some(x))));
            }
        }
        MVal::XStr(t, s) => {
            if t != "X" {
                out.push(MVal::XStr("X".into(), s.clone()));
            }
            out.extend(simpler_strings(s).into_iter().map(|x| MVal::XStr(t.clone(), x)));
        }
        MVal::Date(..) | MVal::Coord(..) => {}
        MVal::Time(h, m, s, n) => {
            if *n != 0 {
                out.push(MVal::Time(*h, *m, *s, 0));
            }
        }
        MVal::DateTime(d) => {
            if d.nanos != 0 {
                let mut c = d.clone();
                c.nanos = 0;
                out.push(MVal::DateTime(c));
            }
        }
        MVal::List(l) => {
            for e in l {
                out.push(e.clone());
            }
            if !l.is_empty() {
                out.push(MVal::List(vec![]));
            }
            for i in 0..l.len() {
                let mut c = l.clone();
                c.remove(i);
                out.push(MVal::List(c));
            }
            for i in 0..l.len() {
                for cv in candidates(&l[i]) {
                    let mut c = l.clone();
                    c[i] = cv;
                    out.push(MVal::List(c));
                }
            }
        }
        MVal::Dict(d) => {
            for e in d.values() {
                out.push(e.clone());
            }
            out.extend(dict_candidates(d).into_iter().map(MVal::Dict));
        }
        MVal::Grid(g) => {
            for r in &g.rows {
                for e in r.values() {
                    out.push(e.clone());
                }
            }
            for e in g.meta.values() {
                out.push(e.clone());
            }
            for c in &g.cols {
                for e in c.meta.values() {
                    out.push(e.clone());
                }
            }
            for m in dict_candidates(&g.meta) {
                let mut c = (**g).clone();
                c.meta = m;
                out.push(MVal::Grid(Box::new(c)));
            }
            for i in 0..g.rows.len() {
                let mut c = (**g).clone();
                c.rows.remove(i);
                out.push(MVal::Grid(Box::new(c)));
            }
            if g.cols.len() > 1 {
                for i in 0..g.cols.len() {
                    let mut c = (**g).clone();
                    let name = c.cols.remove(i).name;
                    for r in c.rows.iter_mut() {
                        r.remove(&name);
                    }
                    out.push(MVal::Grid(Box::new(c)));
                }
            }
            for i in 0..g.cols.len() {
                for m in dict_candidates(&g.cols[i].meta) {
                    let mut c = (**g).clone();
                    c.cols[i].meta = m;
                    out.push(MVal::Grid(Box::new(c)));
                }
                // rename column to a short canonical name
                let short = ["a", "b", "c", "d", "e"][i.min(4)];
                if g.cols[i].name != short && !g.cols.iter().any(|c| c.name == short) {
                    let mut c = (**g).clone();
                    let old = std::mem::replace(&mut c.cols[i].name, short.to_string());
                    for r in c.rows.iter_mut() {
                        if let Some(v) = r.remove(&old) {
                            r.insert(short.to_string(), v);
                        }
                    }
                    out.push(MVal::Grid(Box::new(c)));
                }
            }
            for i in 0..g.rows.len() {
                // fill missing cells / simplify cells
                for col in &g.cols {
                    match g.rows[i].get(&col.name) {
                        None => {
                            let mut c = (**g).clone();
                            c.rows[i].insert(col.name.clone(), MVal::Marker);
                            out.push(MVal::Grid(Box::new(c)));
                        }
                        Some(v) => {
                            if *v != MVal::Marker {
                                let mut c = (**g).clone();
                                c.rows[i].insert(col.name.clone(), MVal::Marker);
                                out.push(MVal::Grid(Box::new(c)));
                            }
                            for cv in candidates(v) {
                                let mut c = (**g).clone();
                                c.rows[i].insert(col.name.clone(), cv);
                                out.push(MVal::Grid(Box::new(c)));
                            }
                        }
                    }
                }
            }
        }
    }
    out
}

fn weight(v: &MVal) -> usize {
    let mut w = 0usize;
    v.walk(&mut |n| {
        w += 4;
        match n {
            MVal::Str(s) | MVal::Uri(s) | MVal::Symbol(s) => w += s.chars().count(),
            MVal::XStr(t, s) => w += t.len() + s.chars().count(),
            MVal::Ref(a, d) => w += a.len() + d.as_ref().map_or(0, |d| 2 + d.chars().count()),
            MVal::Num(f, u) => w += u.is_some() as usize * 2 + (f.0 != 1.0) as usize,
            MVal::Time(_, _, _, n) => w += (*n != 0) as usize,
            MVal::DateTime(d) => w += (d.nanos != 0) as usize,
            MVal::Grid(g) => w += g.cols.iter().map(|c| c.name.len()).sum::<usize>(),
            MVal::Dict(d) => w += d.keys().map(|k| k.len()).sum::<usize>(),
            _ => {}
        }
    });
    w
}

/// Shrink `v` while `fails` keeps returning true. Bounded number of oracle calls.
pub fn shrink(v: &MVal, fails: &mut dyn FnMut(&MVal) -> bool) -> MVal {
    let mut cur = v.clone();
    let mut calls = 0usize;
    'outer: loop {
        let w = weight(&cur);
        let mut cands = candidates(&cur);
        cands.sort_by_key(weight);
        for c in cands {
            if weight(&c) >= w {
                continue;
            }
            calls += 1;
            if calls > 4000 {
                break 'outer;
            }
            if fails(&c) {
                cur = c;
                continue 'outer;
            }
        }
        break;
    }
    cur
}

fn num_class(f: f64) -> &'static str {
    if f.is_nan() {
        "nan"
    } else if f == f64::INFINITY {
        "+inf"
    } else if f == f64::NEG_INFINITY {
        "-inf"
    } else if f == 0.0 && f.is_sign_negative() {
        "neg0"
    } else if f != 0.0 && f.abs() < 2.2250738585072014e-308 {
        "subnormal"
    } else if f.fract() == 0.0 && f.abs() >= 9223372036854775808.0 {
        "int>=2^63"
    } else if f.fract() == 0.0 && f.abs() >= 9007199254740992.0 {
        "int>=2^53"
    } else if f.fract() == 0.0 {
        "int"
    } else {
        "fraction"
    }
}

fn dict_shape(d: &MDict) -> String {
    let mut parts: Vec<String> = d.values().map(shape).collect();
    parts.sort();
    parts.dedup();
    parts.join(",")
}

/// Abstract shape of a (shrunk) value: kinds and datum classes, no concrete data.
pub fn shape(v: &MVal) -> String {
    match v {
        MVal::Num(f, u) => format!("number({}{})", num_class(f.0), if u.is_some() { ",unit" } else { "" }),
        MVal::Str(s) => format!("str({})", string_sig_class(s)),
        MVal::Uri(s) => format!("uri({})", string_sig_class(s)),
        MVal::XStr(_, s) => format!("xstr({})", string_sig_class(s)),
        MVal::Ref(_, None) => "ref".to_string(),
        MVal::Ref(_, Some(d)) => format!("ref(dis:{})", string_sig_class(d)),
        MVal::Time(_, _, _, n) => format!("time({})", if *n == 0 { "whole" } else { "fraction" }),
        MVal::DateTime(d) => {
            let off = d.offset.abs();
            let oc = if d.tz == "UTC" {
                "utc"
            } else if off % 3600 != 0 {
                "off-not-whole-hour"
            } else if off >= 36000 {
                "off>=10h"
            } else {
                "zone"
            };
            format!("dateTime({}{})", oc, if d.nanos != 0 { ",fraction" } else { "" })
        }
        MVal::List(l) => {
            let mut parts: Vec<String> = l.iter().map(shape).collect();
            parts.sort();
            parts.dedup();
            format!("list[{}]", parts.join(","))
        }
        MVal::Dict(d) => format!("dict{{{}}}", dict_shape(d)),
        MVal::Grid(g) => {
            let mut flags: Vec<String> = Vec::new();
            if !g.meta.is_empty() {
                flags.push(format!("meta{{{}}}", dict_shape(&g.meta)));
            }
            if g.cols.iter().any(|c| !c.meta.is_empty()) {
                let mut p: Vec<String> = g.cols.iter().filter(|c| !c.meta.is_empty()).map(|c| dict_shape(&c.meta)).collect();
                p.sort();
                p.dedup();
                flags.push(format!("colmeta{{{}}}", p.join(",")));
            }
            if g.rows.is_empty() {
                flags.push("zero-rows".into());
            }
            if g.cols.len() == 1 {
                flags.push("one-col".into());
            }
            if g.rows.iter().any(|r| r.len() < g.cols.len()) {
                flags.push("missing-cell".into());
            }
            let mut cells: Vec<String> = g.rows.iter().flat_map(|r| r.values().map(shape)).collect();
            cells.sort();
            cells.dedup();
            format!("grid<{}>[{}]", flags.join(";"), cells.join(","))
        }
        other => other.kind_name().to_string(),
    }
}
