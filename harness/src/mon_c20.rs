//! C20 — display names follow the documented precedence and macro substitution.

use crate::ctx::{truncate, Ctx};
use crate::prng::Rng;
use crate::util::{catch, panic_sig};
use libhaystack::val::{dict_to_dis, dis_macro, Dict, HaystackDict, Value};
use serde_json::json;
use std::borrow::Cow;

const CHAIN: [&str; 8] = ["dis", "disMacro", "disKey", "name", "def", "tag", "navName", "id"];

fn localized(key: &str) -> Option<String> {
    // a deterministic localisation table: keys containing 'k' exist; one of them is localised to the empty string
    if key == "kEmpty" || key == "kE" {
        return Some(String::new());
    }
    if key.contains('k') {
        Some(format!("L[{key}]"))
    } else {
        None
    }
}

/// the value's own display text (Display); if that panics the reference text is a marker that no result can equal,
/// and the library call under test reports the panic itself
fn shown(v: &Value) -> String {
    catch(|| v.to_string()).unwrap_or_else(|_| "\u{0}<Display panicked>".to_string())
}

fn display_text(v: &Value) -> String {
    match v {
        Value::Str(s) => s.value.clone(),
        Value::Ref(r) => r.dis.clone().unwrap_or_else(|| r.value.clone()),
        other => shown(other),
    }
}

fn plain_text(v: &Value) -> String {
    match v {
        Value::Str(s) => s.value.clone(),
        other => shown(other),
    }
}

fn is_id_start(c: char) -> bool {
    c.is_ascii_lowercase()
}
fn is_id_char(c: char) -> bool {
    c.is_ascii_alphanumeric() || c == '_'
}

/// Reference macro scanner (left to right; unresolved or malformed macros stay verbatim).
pub fn ref_macro(pattern: &str, get: &dyn Fn(&str) -> Option<Value>, loc: &dyn Fn(&str) -> Option<String>) -> String {
    let cs: Vec<char> = pattern.chars().collect();
    let mut out = String::new();
    let mut i = 0;
    while i < cs.len() {
        if cs[i] != '$' {
            out.push(cs[i]);
            i += 1;
            continue;
        }
        // $tag
        if i + 1 < cs.len() && is_id_start(cs[i + 1]) {
            let mut j = i + 2;
            while j < cs.len() && is_id_char(cs[j]) {
                j += 1;
            }
            let name: String = cs[i + 1..j].iter().collect();
            match get(&name) {
                Some(v) => out.push_str(&display_text(&v)),
                None => out.extend(cs[i..j].iter()),
            }
            i = j;
            continue;
        }
        // ${tag}
        if i + 2 < cs.len() && cs[i + 1] == '{' && is_id_start(cs[i + 2]) {
            let mut j = i + 3;
            while j < cs.len() && is_id_char(cs[j]) {
                j += 1;
            }
            if j < cs.len() && cs[j] == '}' {
                let name: String = cs[i + 2..j].iter().collect();
                match get(&name) {
                    Some(v) => out.push_str(&display_text(&v)),
                    None => out.extend(cs[i..=j].iter()),
                }
                i = j + 1;
                continue;
            }
        }
        // $<key>
        if i + 1 < cs.len() && cs[i + 1] == '<' {
            let mut j = i + 2;
            while j < cs.len() && cs[j] != '>' {
                j += 1;
            }
            if j < cs.len() && j > i + 2 {
                let key: String = cs[i + 2..j].iter().collect();
                match loc(&key) {
                    Some(t) => out.push_str(&t),
                    None => out.extend(cs[i..=j].iter()),
                }
                i = j + 1;
                continue;
            }
        }
        out.push('$');
        i += 1;
    }
    out
}

pub fn ref_dis(d: &Dict, default: Option<&str>) -> String {
    let get = |k: &str| d.get(k).cloned();
    if let Some(v) = d.get("dis") {
        return plain_text(v);
    }
    if let Some(v) = d.get("disMacro") {
        return match v {
            Value::Str(s) => ref_macro(&s.value, &get, &localized),
            other => plain_text(other),
        };
    }
    if let Some(v) = d.get("disKey") {
        if let Value::Str(s) = v {
            if let Some(l) = localized(&s.value) {
                return l;
            }
        }
        return plain_text(v);
    }
    for k in ["name", "def", "tag", "navName"] {
        if let Some(v) = d.get(k) {
            return plain_text(v);
        }
    }
    if let Some(v) = d.get("id") {
        return display_text(v);
    }
    default.unwrap_or("").to_string()
}

fn lib_dis(d: &Dict, default: Option<&str>) -> String {
    let loc = |k: &str| -> Option<Cow<str>> { localized(k).map(Cow::Owned) };
    dict_to_dis(d, &loc, default.map(Cow::Borrowed)).to_string()
}

const PIECES: [&str; 49] = [
    // the display tags themselves are ordinary tags inside a pattern
    "$dis", "${disMacro}", "$disMacro", "$disKey", "${name}", "$def", "$tag", "${navName}", "$id", "$navName", "$name", "${id}",
    "$pwr", "${pwr}", "$tempSp", "pwr", "$pinf", "$<kE>", "$<kEmpty>",
    "$", "{", "}", "<", ">", "a", "b", "ab", "aB_9", "siteRef", "k", "kx", "pod::key", " ", "é", "$a", "${a}", "${ab}", "$<k>", "$<x>", "$ab", "$siteRef", "$$", "${", "$<", "x", "A", "_", "9", "😀",
];

/// a tag name of 300 characters (tag names have no length limit)
fn long_tag() -> &'static str {
    static T: std::sync::OnceLock<String> = std::sync::OnceLock::new();
    T.get_or_init(|| format!("t{}", "aB9_".repeat(75)))
}

fn gen_pattern(rng: &mut Rng) -> String {
    let n = rng.below(9);
    let mut p = (0..n).map(|_| *rng.pick::<&str>(&PIECES)).collect::<Vec<_>>().concat();
    if rng.chance(1, 25) {
        p.push_str(if rng.coin() { "$" } else { "${" });
        p.push_str(long_tag());
        if p.contains("${t") && rng.chance(9, 10) {
            p.push('}');
        }
        p.push_str(" end");
    }
    p
}

fn value_of_kind(rng: &mut Rng, k: usize) -> Value {
    match k % 14 {
        0 => Value::make_str("text"),
        1 => Value::make_str(""),
        2 => Value::make_ref("rid"),
        3 => Value::make_ref_with_dis("rid", "Ref Dis"),
        4 => Value::make_number(2.5),
        5 => Value::make_bool(true),
        6 => Value::Marker,
        7 => Value::make_uri("http://x/"),
        8 => Value::make_symbol("sym"),
        9 => Value::Null,
        10 => Value::make_list(vec![Value::make_number(1.0)]),
        // constructible though not well-formed: a non-finite number that carries a unit
        12 => Value::make_number_unit(f64::INFINITY, crate::bridge::unit_by_name("kilowatt").unwrap()),
        13 => Value::make_number_unit(f64::NAN, crate::bridge::unit_by_name("celsius").unwrap()),
        _ => Value::make_str(&crate::gen::gen_string(rng)),
    }
}

fn macro_class(p: &str) -> String {
    let mut c = Vec::new();
    if p.contains("${") {
        c.push("brace");
    }
    if p.contains("$<") {
        c.push("angle");
    }
    if p.chars().zip(p.chars().skip(1)).any(|(a, b)| a == '$' && b.is_ascii_lowercase()) {
        c.push("plain");
    }
    if !p.contains('$') {
        c.push("no-dollar");
    }
    if c.is_empty() {
        c.push("bare-dollar");
    }
    c.join("+")
}

pub fn run(ctx: &mut Ctx) {
    // ---- precedence: all 2^8 presence subsets x value kinds -------------------------------------------
    for subset in 0u32..256 {
        if (subset as u64) % ctx.nshards != ctx.shard {
            continue;
        }
        if !ctx.begin("precedence", subset as u64) {
            continue;
        }
        let mut rng = ctx.case_rng("precedence", subset as u64);
        // 12 rotations of the value kinds x {default given, none} x {disMacro is a pattern, any kind} (so that no
        // two choices are tied to each other through the variant number), then 24 fully random assignments
        for variant in 0..72usize {
            let random = variant >= 48;
            let k = variant % 12;
            let opt = variant / 12;
            let with_default = if random { rng.coin() } else { opt % 2 == 0 };
            let macro_pattern = if random { rng.coin() } else { (opt / 2) % 2 == 0 };
            let mut d = Dict::new();
            for (bit, tag) in CHAIN.iter().enumerate() {
                if subset & (1 << bit) != 0 {
                    let v = if *tag == "disMacro" && macro_pattern {
                        Value::make_str(&gen_pattern(&mut rng))
                    } else if *tag == "disKey" && (if random { rng.coin() } else { k % 3 == 0 }) {
                        Value::make_str(*rng.pick::<&str>(&["kLocal", "nolocal", "kEmpty"]))
                    } else {
                        let kind = if random { rng.below(14) } else { k + bit };
                        value_of_kind(&mut rng, kind)
                    };
                    d.insert(tag.to_string(), v);
                }
            }
            d.insert("a".into(), Value::make_str("AA"));
            d.insert("ab".into(), Value::make_number(7.0));
            d.insert("pwr".into(), Value::make_number_unit(72.5, crate::bridge::unit_by_name("kilowatt").unwrap()));
            d.insert("siteRef".into(), Value::make_ref_with_dis("s1", "Site One"));
            let default = if with_default { Some("DEFAULT") } else { None };
            ctx.eval("precedence", crate::prng::mix(&[subset as u64, variant as u64]), true);
            let want = ref_dis(&d, default);
            match catch(|| lib_dis(&d, default)) {
                Err(p) => ctx.violation(&format!("dis:{}", panic_sig(&p)), &p.msg, json!({"record": truncate(&format!("{d:?}"), 600)})),
                Ok(got) => {
                    if got != want {
                        let first = CHAIN.iter().find(|t| d.contains_key(**t)).copied().unwrap_or("none");
                        ctx.violation(&format!("dis:wrong:first-tag-{first}"), &format!("display string {got:?}, expected {want:?} (first display tag present: {first})"), json!({"record": truncate(&format!("{d:?}"), 800)}));
                    }
                }
            }
            if default.is_none() {
                // HaystackDict::dis() = no localisation, no default
                let want2 = {
                    // same chain without localisation
                    let loc_none = |_: &str| -> Option<String> { None };
                    if let Some(v) = d.get("dis") {
                        plain_text(v)
                    } else if let Some(Value::Str(s)) = d.get("disMacro") {
                        ref_macro(&s.value, &|k| d.get(k).cloned(), &loc_none)
                    } else if d.get("disMacro").is_some() {
                        plain_text(d.get("disMacro").unwrap())
                    } else if let Some(v) = d.get("disKey") {
                        plain_text(v)
                    } else {
                        ref_dis(&{
                            let mut e = d.clone();
                            e.remove("disMacro");
                            e.remove("disKey");
                            e
                        }, None)
                    }
                };
                match catch(|| d.dis().to_string()) {
                    Ok(got) if got == want2 => {}
                    Ok(got) => ctx.violation("dis:Dict::dis-wrong", &format!("dis() = {got:?}, expected {want2:?}"), json!({"record": truncate(&format!("{d:?}"), 800)})),
                    Err(p) => ctx.violation(&format!("dis:{}", panic_sig(&p)), &p.msg, json!({})),
                }
            }
        }
    }
    // ---- macro patterns ---------------------------------------------------------------------------------
    let tags: Vec<(&str, Value)> = vec![
        ("a", Value::make_str("AA")),
        ("b", Value::make_ref("bid")),
        ("ab", Value::make_number(7.0)),
        ("aB_9", Value::make_bool(true)),
        ("siteRef", Value::make_ref_with_dis("s1", "Site One")),
        ("k", Value::Marker),
        ("pwr", Value::make_number_unit(72.5, crate::bridge::unit_by_name("kilowatt").unwrap())),
        ("tempSp", Value::make_number_unit(-40.0, crate::bridge::unit_by_name("fahrenheit").unwrap())),
        ("pinf", Value::make_number_unit(f64::INFINITY, crate::bridge::unit_by_name("kilowatt").unwrap())), // ill-formed but constructible
        ("x", Value::make_str("$a")), // substituted text is not re-scanned
        ("y", Value::make_str("${a} $<k> $x")),
        (long_tag(), Value::make_str("LONG")),
    ];
    let n = ctx.n(20_000, 1_000_000);
    for i in 0..n {
        if !ctx.begin("macro", i) {
            continue;
        }
        let mut rng = ctx.case_rng("macro", i);
        let p = gen_pattern(&mut rng);
        // some tags are absent in this case
        let mask = rng.next_u64();
        let get = |k: &str| -> Option<Value> { tags.iter().enumerate().find(|(j, (t, _))| *t == k && (mask >> j) & 1 == 1).map(|(_, (_, v))| v.clone()) };
        let want = ref_macro(&p, &get, &localized);
        let cls = macro_class(&p);
        ctx.eval(&format!("macro:{cls}"), crate::prng::mix(&[crate::prng::hash_str(&p), mask & 0x7f]), p.contains('$'));
        if ctx.wants_sample(&format!("macro:{cls}")) && !p.is_empty() {
            ctx.sample(&format!("macro:{cls}"), json!({"pattern": p, "expected": want}));
        }
        let r = catch(|| dis_macro(&p, |k| get(k).map(Cow::Owned), |k| localized(k).map(Cow::Owned)).to_string());
        match r {
            Err(pn) => ctx.violation(&format!("macro:{}", panic_sig(&pn)), &pn.msg, json!({"pattern": p})),
            Ok(got) => {
                if got != want {
                    ctx.violation(&format!("macro:wrong:{cls}"), &format!("pattern {p:?} gives {got:?}, expected {want:?}"), json!({"pattern": p, "present_tags": tags.iter().enumerate().filter(|(j, _)| (mask >> j) & 1 == 1).map(|(_, (t, _))| *t).collect::<Vec<_>>()}));
                }
                if !p.contains('$') && got != p {
                    ctx.violation("macro:text-without-dollar-changed", &format!("{p:?} -> {got:?}"), json!({"pattern": p}));
                }
            }
        }
    }
    // arbitrary Unicode patterns never panic and stay unchanged without '$'
    let n = ctx.n(3_000, 100_000);
    for i in 0..n {
        if !ctx.begin("macro-unicode", i) {
            continue;
        }
        let mut rng = ctx.case_rng("macro-unicode", i);
        let p = crate::gen::gen_string(&mut rng);
        ctx.eval("macro-unicode", crate::prng::hash_str(&p), !p.is_empty());
        let get = |k: &str| -> Option<Value> { tags.iter().find(|(t, _)| *t == k).map(|(_, v)| v.clone()) };
        let want = ref_macro(&p, &get, &localized);
        match catch(|| dis_macro(&p, |k| get(k).map(Cow::Owned), |k| localized(k).map(Cow::Owned)).to_string()) {
            Err(pn) => ctx.violation(&format!("macro:{}", panic_sig(&pn)), &pn.msg, json!({"pattern": truncate(&p, 300)})),
            Ok(got) if got != want => ctx.violation(&format!("macro:wrong:unicode:{}", macro_class(&p)), &format!("pattern {:?} gives {:?}, expected {:?}", truncate(&p, 200), truncate(&got, 200), truncate(&want, 200)), json!({})),
            Ok(_) => {}
        }
    }
}
