//! C07 — filter evaluation follows the stated semantics (reference evaluator, don't-cares skipped).

use crate::bridge::{observe, to_value_with};
use crate::ctx::{truncate, Ctx};
use crate::model::*;
use crate::mon_c08::{fshape, fshape_term, parse};
use crate::prng::Rng;
use crate::reffilter::*;
use crate::shrink::shape;
use crate::util::{catch, panic_sig};
use libhaystack::defs::namespace::DEFAULT_NS;
use libhaystack::filter::eval::EvalContext;
use libhaystack::filter::path::Path;
use libhaystack::filter::{Eval, Filter, Filtered, ListFiltered, PathResolver};
use libhaystack::val::{Dict, Grid, Ref, Value};
use serde_json::json;
use std::cell::Cell;
use std::collections::HashMap;

const TAGS: [&str; 5] = ["a", "b", "c", "site", "x1"];

fn utc(secs: i64) -> MVal {
    MVal::DateTime(crate::bridge::mdatetime(chrono_tz::UTC, secs, 0))
}
fn ny(secs: i64) -> MVal {
    MVal::DateTime(crate::bridge::mdatetime(chrono_tz::America::New_York, secs, 0))
}

/// Values that near-collide with the literal pool.
pub fn value_pool() -> Vec<MVal> {
    vec![
        MVal::Marker,
        MVal::Na,
        MVal::Remove,
        MVal::Bool(true),
        MVal::Bool(false),
        MVal::num(5.0),
        MVal::num(-1.0),
        MVal::num(5.5),
        MVal::num(0.0),
        MVal::num(-0.0),
        MVal::Num(F(5.0), Some("meter".into())),
        MVal::Num(F(5.0), Some("second".into())),
        MVal::Num(F(6.0), Some("meter".into())),
        MVal::str("x"),
        MVal::str("y"),
        MVal::str(""),
        MVal::str("X"),
        MVal::Uri("x".into()),
        MVal::Symbol("x".into()),
        MVal::Ref("r".into(), None),
        MVal::Ref("r".into(), Some("R".into())),
        MVal::Ref("s".into(), None),
        MVal::Date(2020, 1, 2),
        MVal::Date(2020, 1, 3),
        MVal::Time(12, 0, 0, 0),
        MVal::Time(12, 0, 0, 500_000_000),
        utc(1_600_000_000),
        ny(1_600_000_000),
        utc(1_600_000_001),
        MVal::Coord(F(1.0), F(2.0)),
        MVal::XStr("T".into(), "x".into()),
        // neighbours: doubles one ulp apart; strings whose code point order and UTF-16 code unit order differ
        MVal::num(0.3),
        MVal::num(0.1 + 0.2),
        MVal::Num(F(0.3), Some("meter".into())),
        MVal::Num(F(0.1 + 0.2), Some("meter".into())),
        MVal::str("ab\u{ff21}"),
        MVal::str("ab\u{1f600}"),
        MVal::str("ab\u{e000}z"),
        MVal::Uri("ab\u{ff21}".into()),
        MVal::Uri("ab\u{1f600}".into()),
    ]
}

pub fn literal_pool() -> Vec<MVal> {
    value_pool().into_iter().filter(|v| matches!(v, MVal::Bool(_) | MVal::Num(..) | MVal::Str(_) | MVal::Uri(_) | MVal::Symbol(_) | MVal::Ref(..) | MVal::Date(..) | MVal::Time(..) | MVal::DateTime(_))).collect()
}

fn gen_tag_value(rng: &mut Rng, pool: &[MVal], depth: usize) -> Option<MVal> {
    match rng.below(10) {
        0 | 1 => None,
        2 => Some(MVal::Null),
        3 if depth > 0 => Some(MVal::List((0..rng.below(4)).map(|_| if rng.chance(1, 8) { MVal::Null } else { rng.pick(pool).clone() }).collect())),
        4 if depth > 0 => {
            let mut d = MDict::new();
            for t in TAGS {
                if let Some(v) = gen_tag_value(rng, pool, depth - 1) {
                    d.insert(t.to_string(), v);
                }
            }
            Some(MVal::Dict(d))
        }
        _ => Some(rng.pick(pool).clone()),
    }
}

pub fn gen_record(rng: &mut Rng, pool: &[MVal]) -> MDict {
    let mut d = MDict::new();
    for t in TAGS {
        if let Some(v) = gen_tag_value(rng, pool, 2) {
            d.insert(t.to_string(), v);
        }
    }
    d
}

fn gen_path7(rng: &mut Rng) -> FPath {
    let n = match rng.below(8) {
        0..=4 => 1,
        5 | 6 => 2,
        _ => 3,
    };
    (0..n).map(|_| rng.pick(&TAGS).to_string()).collect()
}

fn gen_term7(rng: &mut Rng, lits: &[MVal], depth: usize) -> FTerm {
    match rng.below(if depth > 0 { 12 } else { 10 }) {
        0 | 1 => FTerm::Has(gen_path7(rng)),
        2 => FTerm::Missing(gen_path7(rng)),
        3..=7 => FTerm::Cmp(gen_path7(rng), *rng.pick(&OPS), rng.pick(lits).clone()),
        8 => FTerm::WildcardEq(gen_path7(rng), rng.pick(&["r", "s", "t", "u"]).to_string(), None),
        9 => {
            if rng.coin() {
                FTerm::IsA("site".into())
            } else {
                FTerm::Relation("containedBy".into(), None, if rng.coin() { Some("r".into()) } else { None })
            }
        }
        _ => FTerm::Parens(gen_or7(rng, lits, depth - 1)),
    }
}

fn gen_or7(rng: &mut Rng, lits: &[MVal], depth: usize) -> FOr {
    let na = 1 + rng.below(3);
    FOr((0..na).map(|_| FAnd((0..1 + rng.below(3)).map(|_| gen_term7(rng, lits, depth)).collect())).collect())
}

/// Caller-supplied resolver with Ref chains (incl. cycles). Counts resolve_ref calls.
pub struct ChainResolver {
    pub recs: HashMap<String, Dict>,
    pub calls: Cell<u64>,
}

impl PathResolver for ChainResolver {
    fn resolve_for(&self, root: &Dict, path: &Path) -> Value {
        root.resolve_for(root, path)
    }
    fn resolve(&self, _path: &Path) -> Value {
        Value::Null
    }
    fn resolve_ref(&self, reference: &Ref) -> Option<Dict> {
        self.calls.set(self.calls.get() + 1);
        if self.calls.get() > 10_000 {
            // far more than any terminating traversal of a handful of records needs: the evaluation is not
            // converging (harness-side abort of the evaluation, reported by the caller)
            panic!("HARNESS-CAP: resolve_ref called more than 10000 times in one evaluation");
        }
        self.recs.get(&reference.value).cloned()
    }
}

pub struct ModelRefs(pub HashMap<String, MDict>);
impl RefLookup for ModelRefs {
    fn deref(&self, id: &str) -> Option<MDict> {
        self.0.get(id).cloned()
    }
}

fn to_dict(d: &MDict) -> Dict {
    match to_value_with(&MVal::Dict(d.clone()), 0) {
        Value::Dict(d) => d,
        _ => unreachable!(),
    }
}

/// A small world of records reachable by ref, with chains and a cycle: r -> s -> t -> r, u -> (missing)
fn ref_world(rng: &mut Rng, pool: &[MVal]) -> (HashMap<String, MDict>, HashMap<String, Dict>) {
    let mut m = HashMap::new();
    let next = [("r", "s"), ("s", "t"), ("t", "r"), ("u", "nowhere")];
    for (id, nx) in next {
        let mut d = gen_record(rng, pool);
        d.insert("id".into(), MVal::Ref(id.into(), None));
        for t in TAGS {
            if rng.chance(1, 2) {
                d.insert(t.to_string(), MVal::Ref(nx.into(), None));
            }
        }
        if rng.chance(1, 10) {
            d.clear(); // an empty record in the chain
        }
        m.insert(id.to_string(), d);
    }
    let lib = m.iter().map(|(k, v)| (k.clone(), to_dict(v))).collect();
    (m, lib)
}

fn lib_eval(filter: &Filter, rec: &Dict, resolver: Option<&ChainResolver>) -> Result<bool, crate::util::Panic> {
    catch(|| match resolver {
        None => rec.filter(filter),
        Some(r) => {
            let ctx = EvalContext::make(rec, &DEFAULT_NS, r);
            filter.eval(&ctx)
        }
    })
}

fn value_class_at(rec: &MDict, p: &FPath) -> String {
    let v = resolve(rec, p);
    match &v {
        MVal::Null => {
            // distinguish missing tag from explicit Null / broken path
            if p.len() == 1 && !rec.contains_key(&p[0]) {
                "missing".into()
            } else {
                "null".into()
            }
        }
        other => shape(other),
    }
}

fn check_one(ctx: &mut Ctx, f: &FOr, rec_m: &MDict, refs_m: &ModelRefs, refs_l: Option<&ChainResolver>, tag: &str) {
    let mut r = Rng::new(1);
    let text = print_filter(&mut r, f, false);
    let filter = match parse(&text) {
        Ok(Ok(f)) => f,
        other => {
            ctx.violation(&format!("eval:unparsable:{}", fshape(f)), &format!("could not parse the printed filter: {:?}", other.map(|r| r.map(|_| ()))), json!({"text": text}));
            return;
        }
    };
    let rec_l = to_dict(rec_m);
    let expected = eval_or(f, rec_m, refs_m);
    let got = match lib_eval(&filter, &rec_l, refs_l) {
        Ok(b) => b,
        Err(p) if p.msg.starts_with("HARNESS-CAP") => {
            ctx.violation("eval:nontermination:resolve_ref-cap", &format!("evaluating '{text}' asked the resolver more than 10000 times over a 4-record world"), json!({"filter": text, "record": truncate(&MVal::Dict(rec_m.clone()).show(), 600)}));
            return;
        }
        Err(p) => {
            ctx.violation(&format!("eval:{}:{}", panic_sig(&p), fshape(f)), &format!("evaluation panicked: {}", p.msg), json!({"filter": text, "record": truncate(&MVal::Dict(rec_m.clone()).show(), 600)}));
            return;
        }
    };
    match expected {
        None => ctx.dont_care("truth value left open by the statement (units differ / unordered kind / same instant in two zones)"),
        Some(e) if e == got => {}
        Some(e) => {
            // find the term where the library and the reference part ways
            let mut terms = Vec::new();
            collect_terms(f, &mut terms);
            for t in &terms {
                if matches!(t, FTerm::Parens(_)) {
                    continue;
                }
                let single = FOr(vec![FAnd(vec![t.clone()])]);
                let mut r = Rng::new(1);
                let ttext = print_filter(&mut r, &single, false);
                if let (Ok(Ok(tf)), Some(te)) = (parse(&ttext), eval_term(t, rec_m, refs_m)) {
                    if let Ok(tg) = lib_eval(&tf, &rec_l, refs_l) {
                        if tg != te {
                            let lhs = match t {
                                FTerm::Has(p) | FTerm::Missing(p) | FTerm::Cmp(p, _, _) | FTerm::WildcardEq(p, _, _) => value_class_at(rec_m, p),
                                _ => "-".into(),
                            };
                            ctx.violation(
                                &format!("eval:{}:term:{}:on:{}", tag, fshape_term(t), lhs),
                                &format!("'{}' is {} on a record where the path resolves to {}; the filter semantics say {}", ttext, tg, lhs, te),
                                json!({"filter": ttext, "record": truncate(&MVal::Dict(rec_m.clone()).show(), 800), "expected": te, "got": tg, "whole_filter": truncate(&text, 400)}),
                            );
                            return;
                        }
                    }
                }
            }
            ctx.violation(
                &format!("eval:{}:composition:{}", tag, if terms.len() <= 3 { fshape(f) } else { "large".into() }),
                &format!("every term agrees with the reference but the whole filter is {} instead of {}", got, e),
                json!({"filter": truncate(&text, 600), "record": truncate(&MVal::Dict(rec_m.clone()).show(), 800)}),
            );
        }
    }
}

fn collect_terms(o: &FOr, out: &mut Vec<FTerm>) {
    for a in &o.0 {
        for t in &a.0 {
            out.push(t.clone());
            if let FTerm::Parens(i) = t {
                collect_terms(i, out);
            }
        }
    }
}

pub fn run(ctx: &mut Ctx) {
    let pool = value_pool();
    let lits = literal_pool();
    // ---- bounded-exhaustive: every term over tag 'a' x every literal x every op, on every single-tag record ----
    if ctx.shard == 0 && ctx.begin("term-matrix", 0) {
        let mut states: Vec<Option<MVal>> = vec![None, Some(MVal::Null)];
        states.extend(pool.iter().cloned().map(Some));
        states.push(Some(MVal::List(vec![])));
        for v in &pool {
            states.push(Some(MVal::List(vec![MVal::str("zz"), v.clone()])));
        }
        states.push(Some(MVal::Dict(MDict::new())));
        let refs = ModelRefs(HashMap::new());
        let mut terms: Vec<FTerm> = vec![FTerm::Has(vec!["a".into()]), FTerm::Missing(vec!["a".into()])];
        for op in OPS {
            for l in &lits {
                terms.push(FTerm::Cmp(vec!["a".into()], op, l.clone()));
            }
        }
        let mut n = 0u64;
        for st in &states {
            let mut rec = MDict::new();
            rec.insert("b".into(), MVal::Marker);
            if let Some(v) = st {
                rec.insert("a".into(), v.clone());
            }
            for t in &terms {
                let f = FOr(vec![FAnd(vec![t.clone()])]);
                ctx.eval("term-matrix", crate::prng::mix(&[filter_fp(&f), dict_fp(&rec)]), true);
                check_one(ctx, &f, &rec, &refs, None, "dict");
                n += 1;
            }
        }
        ctx.note("term_matrix_cells", json!(n));
    }
    // ---- random filters on random records through Dict::filter -------------------------------------
    let n = ctx.n(20_000, 500_000);
    for i in 0..n {
        if !ctx.begin("random", i) {
            continue;
        }
        let mut rng = ctx.case_rng("random", i);
        let f = gen_or7(&mut rng, &lits, 2);
        let rec = if rng.chance(1, 40) { MDict::new() } else { gen_record(&mut rng, &pool) };
        ctx.eval("random", crate::prng::mix(&[filter_fp(&f), dict_fp(&rec)]), true);
        if ctx.wants_sample("random") {
            let mut r = Rng::new(1);
            ctx.sample("random", json!({"filter": print_filter(&mut r, &f, false), "record": truncate(&MVal::Dict(rec.clone()).show(), 300)}));
        }
        check_one(ctx, &f, &rec, &ModelRefs(HashMap::new()), None, "dict");
    }
    // ---- caller-supplied resolver with ref chains and cycles -----------------------------------------
    let n = ctx.n(4_000, 100_000);
    for i in 0..n {
        if !ctx.begin("resolver", i) {
            continue;
        }
        let mut rng = ctx.case_rng("resolver", i);
        let (wm, wl) = ref_world(&mut rng, &pool);
        let res = ChainResolver { recs: wl, calls: Cell::new(0) };
        let mut rec = gen_record(&mut rng, &pool);
        for t in TAGS {
            if rng.chance(1, 3) {
                rec.insert(t.to_string(), MVal::Ref(rng.pick(&["r", "s", "t", "u", "v"]).to_string(), None));
            }
        }
        let f = if rng.coin() { FOr(vec![FAnd(vec![FTerm::WildcardEq(gen_path7(&mut rng), rng.pick(&["r", "s", "t", "u", "w"]).to_string(), None)])]) } else { gen_or7(&mut rng, &lits, 1) };
        ctx.eval("resolver", crate::prng::mix(&[filter_fp(&f), dict_fp(&rec), i]), true);
        check_one(ctx, &f, &rec, &ModelRefs(wm), Some(&res), "resolver");
        ctx.note_max("max_resolve_ref_calls_per_eval", res.calls.get() as f64);
    }
    // ---- long ref chains: '*==' follows a chain of any length to its end (and stops on a long cycle) ------------
    for (i, len) in [2usize, 3, 10, 31, 32, 33, 34, 35, 63, 64, 65, 100, 257, 1000].iter().enumerate() {
        if (i as u64) % ctx.nshards != ctx.shard % ctx.nshards || !ctx.begin("long-chain", i as u64) {
            continue;
        }
        let len = *len;
        for cyclic in [false, true] {
            let mut wm: HashMap<String, MDict> = HashMap::new();
            for k in 0..len {
                let mut d = MDict::new();
                d.insert("id".into(), MVal::Ref(format!("c{k}"), None));
                d.insert("site".into(), MVal::Marker);
                if k + 1 < len {
                    d.insert("a".into(), MVal::Ref(format!("c{}", k + 1), None));
                } else if cyclic {
                    d.insert("a".into(), MVal::Ref("c0".into(), None));
                }
                wm.insert(format!("c{k}"), d);
            }
            let wl: HashMap<String, Dict> = wm.iter().map(|(k, v)| (k.clone(), to_dict(v))).collect();
            let mut rec = MDict::new();
            rec.insert("a".into(), MVal::Ref("c0".into(), None));
            for target in [0usize, 1, len / 2, len.saturating_sub(2), len - 1, len, len + 7] {
                let res = ChainResolver { recs: wl.clone(), calls: Cell::new(0) };
                let f = FOr(vec![FAnd(vec![FTerm::WildcardEq(vec!["a".to_string()], format!("c{target}"), None)])]);
                ctx.eval("long-chain", crate::prng::mix(&[len as u64, cyclic as u64, target as u64]), true);
                check_one(ctx, &f, &rec, &ModelRefs(wm.clone()), Some(&res), "long-chain");
                ctx.note_max("max_ref_chain_followed", len as f64);
            }
        }
    }
    // ---- grids: filter = first matching row, filter_all = all matching rows in order ------------------
    let n = ctx.n(3_000, 60_000);
    for i in 0..n {
        if !ctx.begin("grid", i) {
            continue;
        }
        let mut rng = ctx.case_rng("grid", i);
        let f = gen_or7(&mut rng, &lits, 1);
        // incl. empty rows and rows with a single tag: filters that hold by absence must still select them
        let rows_m: Vec<MDict> = (0..rng.below(8))
            .map(|_| match rng.below(6) {
                0 => MDict::new(),
                1 => [(rng.pick::<&str>(&TAGS).to_string(), rng.pick(&pool).clone())].into_iter().collect(),
                _ => gen_record(&mut rng, &pool),
            })
            .collect();
        let exp: Vec<Tri> = rows_m.iter().map(|r| eval_or(&f, r, &NoRefs)).collect();
        ctx.eval("grid", crate::prng::mix(&[filter_fp(&f), rows_m.iter().fold(1, |a, r| crate::prng::mix(&[a, dict_fp(r)]))]), !rows_m.is_empty());
        if exp.iter().any(|e| e.is_none()) {
            ctx.dont_care("grid with a row whose truth value is left open");
            continue;
        }
        let mut r = Rng::new(1);
        let text = print_filter(&mut r, &f, false);
        let Ok(Ok(filter)) = parse(&text) else { continue };
        let grid = Grid::make_from_dicts(rows_m.iter().map(to_dict).collect());
        let res = catch(|| {
            let all: Vec<MDict> = grid.filter_all(&filter).into_iter().map(crate::bridge::observe_dict).collect();
            let all_idx: Vec<usize> = {
                // identify rows by address to tell equal rows apart
                let hits = grid.filter_all(&filter);
                hits.iter().map(|d| grid.rows.iter().position(|r| std::ptr::eq(r, *d)).unwrap_or(usize::MAX)).collect()
            };
            let first: Option<&Dict> = Filtered::filter(&grid, &filter);
            let first_idx = first.map(|d| grid.rows.iter().position(|r| std::ptr::eq(r, d)).unwrap_or(usize::MAX));
            (all, all_idx, first_idx)
        });
        match res {
            Err(p) => ctx.violation(&format!("grid:{}", panic_sig(&p)), &p.msg, json!({"filter": text})),
            Ok((_all, all_idx, first_idx)) => {
                let want: Vec<usize> = exp.iter().enumerate().filter(|(_, e)| **e == Some(true)).map(|(k, _)| k).collect();
                if all_idx != want {
                    ctx.violation("grid:filter_all-rows", &format!("filter_all returned rows {:?}, the matching rows are {:?}", all_idx, want), json!({"filter": text, "rows": rows_m.len()}));
                }
                if first_idx != want.first().cloned() {
                    ctx.violation("grid:filter-first", &format!("filter returned row {:?}, the first matching row is {:?}", first_idx, want.first()), json!({"filter": text, "rows": rows_m.len()}));
                }
            }
        }
    }
    let _ = observe;
}
