//! C12 — equality, hashing and ordering are mutually consistent (law monitor over near-collision pools).

use crate::bridge::{observe, to_value_with, unit_by_name};
use crate::ctx::{truncate, Ctx};
use crate::model::MVal;
use crate::prng::Rng;
use crate::util::catch;
use libhaystack::units::Unit;
use libhaystack::val::*;
use serde_json::json;
use std::cmp::Ordering;
use std::collections::hash_map::DefaultHasher;
use std::collections::{BTreeSet, HashSet};
use std::fmt::Debug;
use std::hash::{Hash, Hasher};

fn h<T: Hash>(t: &T) -> u64 {
    let mut s = DefaultHasher::new();
    t.hash(&mut s);
    s.finish()
}

struct Laws<'a> {
    ctx: &'a mut Ctx,
    ty: &'static str,
}

impl Laws<'_> {
    fn fail(&mut self, law: &str, class: &str, what: String) {
        let sig = format!("law:{}:{}:{}", self.ty, law, class);
        self.ctx.violation(&sig, &what, json!({"type": self.ty, "law": law, "values": what}));
    }
}

/// All laws that need only Eq + Hash + PartialOrd (+ optional Ord through `cmp`).
fn check_pool<T: Eq + Hash + PartialOrd + Clone + Debug>(
    ctx: &mut Ctx,
    ty: &'static str,
    pool: &[T],
    cmp: Option<fn(&T, &T) -> Ordering>,
    class: &dyn Fn(&T) -> String,
    triples: bool,
) {
    let mut l = Laws { ctx, ty };
    let n = pool.len();
    let hashes: Vec<u64> = pool.iter().map(h).collect();
    let pair_class = |a: &T, b: &T| {
        let (x, y) = (class(a), class(b));
        if x <= y {
            format!("{x}~{y}")
        } else {
            format!("{y}~{x}")
        }
    };
    for i in 0..n {
        let a = &pool[i];
        #[allow(clippy::eq_op)]
        if !(a == a) {
            l.fail("eq-reflexive", &class(a), format!("{a:?} != itself"));
        }
        let c = a.clone();
        if !(c == *a) || h(&c) != hashes[i] {
            l.fail("clone-equal", &class(a), format!("clone of {a:?} differs (== or hash)"));
        }
        if let Some(cmp) = cmp {
            if cmp(a, a) != Ordering::Equal {
                l.fail("cmp-reflexive", &class(a), format!("cmp({a:?}, itself) != Equal"));
            }
        }
        for j in 0..n {
            let b = &pool[j];
            let eq = a == b;
            l.ctx.evaluations += 1;
            if eq != (b == a) {
                l.fail("eq-symmetric", &pair_class(a, b), format!("{a:?} == {b:?} is {eq} but the converse is {}", b == a));
            }
            if eq != !(a != b) {
                l.fail("ne-is-not-eq", &pair_class(a, b), format!("{a:?} vs {b:?}: == and != are not complementary"));
            }
            if eq && hashes[i] != hashes[j] {
                l.fail("eq-implies-hash", &pair_class(a, b), format!("{a:?} == {b:?} but their hashes differ"));
            }
            let pc = a.partial_cmp(b);
            if let Some(o) = pc {
                if (o == Ordering::Equal) != eq {
                    l.fail("partial-equal-iff-eq", &pair_class(a, b), format!("{a:?} vs {b:?}: partial_cmp={o:?} but == is {eq}"));
                }
                if b.partial_cmp(a) != Some(o.reverse()) {
                    l.fail("partial-antisymmetric", &pair_class(a, b), format!("{a:?} vs {b:?}: partial_cmp={o:?}, converse {:?}", b.partial_cmp(a)));
                }
            }
            if let Some(cmp) = cmp {
                let o = cmp(a, b);
                if cmp(b, a) != o.reverse() {
                    l.fail("cmp-antisymmetric", &pair_class(a, b), format!("cmp({a:?},{b:?})={o:?} but cmp(b,a)={:?}", cmp(b, a)));
                }
                if (o == Ordering::Equal) != eq {
                    l.fail("cmp-equal-iff-eq", &pair_class(a, b), format!("cmp({a:?},{b:?})={o:?} but == is {eq}"));
                }
                if let Some(p) = pc {
                    if p != o {
                        l.fail("partial-agrees-with-cmp", &pair_class(a, b), format!("{a:?} vs {b:?}: partial_cmp={p:?} cmp={o:?}"));
                    }
                }
            }
        }
    }
    if triples {
        // precompute matrices
        let eqm: Vec<Vec<bool>> = pool.iter().map(|a| pool.iter().map(|b| a == b).collect()).collect();
        let cm: Option<Vec<Vec<Ordering>>> = cmp.map(|cmp| pool.iter().map(|a| pool.iter().map(|b| cmp(a, b)).collect()).collect());
        for i in 0..n {
            for j in 0..n {
                for k in 0..n {
                    l.ctx.evaluations += 1;
                    if eqm[i][j] && eqm[j][k] && !eqm[i][k] {
                        l.fail("eq-transitive", &class(&pool[i]), format!("{:?} == {:?} == {:?} but first != last", pool[i], pool[j], pool[k]));
                    }
                    if let Some(cm) = &cm {
                        if cm[i][j] != Ordering::Greater && cm[j][k] != Ordering::Greater && cm[i][k] == Ordering::Greater {
                            l.fail("cmp-transitive", &pair_class(&pool[i], &pool[k]), format!("{:?} <= {:?} <= {:?} but first > last", pool[i], pool[j], pool[k]));
                        }
                    }
                }
            }
        }
    }
    // behavioural: containers agree with the model (number of ==-classes)
    let mut reps: Vec<&T> = Vec::new();
    for a in pool {
        if !reps.iter().any(|r| *r == a) {
            reps.push(a);
        }
    }
    let hs: HashSet<T> = pool.iter().cloned().collect();
    if hs.len() != reps.len() {
        l.fail("hashset-size", "pool", format!("HashSet holds {} elements, the pool has {} distinct values", hs.len(), reps.len()));
    }
    for a in pool {
        if !hs.contains(a) {
            l.fail("hashset-contains", &class(a), format!("{a:?} not found in a HashSet it was inserted into"));
        }
    }
}

fn check_ord_containers<T: Ord + Clone + Debug>(ctx: &mut Ctx, ty: &'static str, pool: &[T]) {
    let mut l = Laws { ctx, ty };
    let mut reps: Vec<&T> = Vec::new();
    for a in pool {
        if !reps.iter().any(|r| *r == a) {
            reps.push(a);
        }
    }
    let bs: BTreeSet<T> = pool.iter().cloned().collect();
    if bs.len() != reps.len() {
        l.fail("btreeset-size", "pool", format!("BTreeSet holds {} elements, the pool has {} distinct values", bs.len(), reps.len()));
    }
    for a in pool {
        if !bs.contains(a) {
            l.fail("btreeset-contains", "pool", format!("{a:?} not found in a BTreeSet it was inserted into"));
        }
    }
    let mut v: Vec<T> = pool.to_vec();
    v.sort();
    for w in v.windows(2) {
        if w[0].cmp(&w[1]) == Ordering::Greater {
            l.fail("sort-order", "pool", format!("sorted vector has {:?} before {:?}", w[0], w[1]));
        }
    }
    v.dedup();
    if v.len() != reps.len() {
        l.fail("sort-dedup-size", "pool", format!("sort+dedup leaves {} elements, the pool has {} distinct values", v.len(), reps.len()));
    }
}

fn u(name: &str) -> &'static Unit {
    unit_by_name(name).unwrap_or_else(|| panic!("harness: no unit {name}"))
}

fn dict_of(pairs: &[(&str, Value)]) -> Dict {
    Dict::from(pairs.iter().map(|(k, v)| (k.to_string(), v.clone())).collect::<std::collections::BTreeMap<_, _>>())
}

fn dt(secs: i64, zone: &str) -> Value {
    use chrono::TimeZone;
    let tz: chrono_tz::Tz = zone.parse().unwrap();
    Value::make_datetime(DateTime::from(tz.timestamp_opt(secs, 0).unwrap()))
}

fn col(name: &str, meta: Option<Dict>) -> Column {
    Column { name: name.to_string(), meta }
}

pub fn fixed_pool() -> Vec<Value> {
    let mut p: Vec<Value> = vec![
        Value::Null,
        Value::Marker,
        Value::Na,
        Value::Remove,
        Value::make_bool(true),
        Value::make_bool(false),
    ];
    for v in [0.0, -0.0, 1.0, -1.0, 2.5, 1e21, 5e-324, f64::INFINITY, f64::NEG_INFINITY, 9007199254740993.0] {
        p.push(Value::make_number(v));
    }
    for v in [0.0, -0.0, 1.0, 2.5, 1000.0, 32.0] {
        // incl. pairs of different but convertible units (meter/kilometer, second/millisecond, celsius/fahrenheit)
        for unit in ["meter", "kilometer", "second", "millisecond", "kilowatt", "percent", "celsius", "fahrenheit"] {
            p.push(Value::make_number_unit(v, u(unit)));
        }
    }
    p.push(Value::Number(Number { value: 1.0, unit: Some(&*libhaystack::units::DEFAULT_UNIT) }));
    for s in ["", "a", "b", "ab", "A", "a\0", "é"] {
        p.push(Value::make_str(s));
    }
    for s in ["", "a", "b"] {
        p.push(Value::make_uri(s));
        p.push(Value::make_symbol(s));
        p.push(Value::make_ref(s));
        p.push(Value::make_xstr_from("A", s));
    }
    p.push(Value::make_xstr_from("B", "a"));
    p.push(Value::make_ref_with_dis("a", "x"));
    p.push(Value::make_ref_with_dis("a", "y"));
    p.push(Value::make_ref_with_dis("b", "x"));
    p.push(Value::make_date(Date::from_ymd(2020, 1, 1).unwrap()));
    p.push(Value::make_date(Date::from_ymd(2020, 1, 2).unwrap()));
    p.push(Value::make_date(Date::from_ymd(0, 1, 1).unwrap()));
    p.push(Value::make_time(Time::from_hms(0, 0, 0).unwrap()));
    p.push(Value::make_time(Time::from_hms_milli(0, 0, 0, 1).unwrap()));
    p.push(Value::make_time(Time::from_hms(23, 59, 59).unwrap()));
    // a leap second (second 59, nanosecond field >= 1e9) next to the times of the following second
    for (h, m, sec, ns) in [(12u32, 0u32, 59u32, 1_200_000_000u32), (12, 1, 0, 200_000_000), (12, 1, 0, 100_000_000), (12, 0, 59, 999_999_999), (23, 59, 59, 1_500_000_000), (12, 0, 59, 1_000_000_000), (12, 1, 0, 0)] {
        p.push(Value::make_time(Time::from(chrono::NaiveTime::from_hms_nano_opt(h, m, sec, ns).unwrap())));
    }
    {
        use chrono::TimeZone;
        p.push(Value::make_datetime(DateTime::from(chrono_tz::UTC.timestamp_opt(1_600_000_019, 1_200_000_000).unwrap())));
        p.push(Value::make_datetime(DateTime::from(chrono_tz::UTC.timestamp_opt(1_600_000_020, 200_000_000).unwrap())));
    }
    // times (and timestamps) that differ only below the millisecond
    for ns in [1u32, 2, 999, 1_000, 1_000_001, 1_000_002] {
        p.push(Value::make_time(Time::from(chrono::NaiveTime::from_hms_nano_opt(12, 30, 15, ns).unwrap())));
    }
    {
        use chrono::TimeZone;
        for ns in [1u32, 2, 1_000_001] {
            p.push(Value::make_datetime(DateTime::from(chrono_tz::UTC.timestamp_opt(1_600_000_000, ns).unwrap())));
        }
    }
    for z in ["UTC", "America/New_York", "Europe/London", "Asia/Kolkata"] {
        p.push(dt(1_600_000_000, z));
        p.push(dt(1_600_000_001, z));
    }
    for (a, b) in [(0.0, 0.0), (-0.0, 0.0), (0.0, -0.0), (-0.0, -0.0), (1.0, 2.0), (1.0, 3.0), (2.0, 1.0), (-90.0, 180.0), (51.5, 0.0), (51.5, -0.0), (0.0, 7.5), (-0.0, 7.5)] {
        p.push(Value::make_coord_from(a, b));
    }
    // neighbours in the last place: equality, hashing and ordering of floats are exact (no tolerance anywhere)
    {
        let a = 0.3f64;
        let ulps = |k: u64| f64::from_bits(a.to_bits() + k);
        for x in [a, ulps(1), ulps(2), ulps(4), 1.0 + f64::EPSILON, 1e-300, 2e-300] {
            p.push(Value::make_number(x));
            p.push(Value::make_number_unit(x, u("meter")));
            p.push(Value::make_coord_from(x, 0.3));
            p.push(Value::make_coord_from(0.3, x));
        }
    }
    // letter case is significant everywhere
    for s in ["A", "ab", "Ab", "aB"] {
        p.push(Value::make_uri(s));
        p.push(Value::make_symbol(s));
        p.push(Value::make_ref(s));
        p.push(Value::make_xstr_from("A", s));
    }
    p.push(Value::make_xstr_from("Ab", "a"));
    p.push(Value::make_xstr_from("AB", "a"));
    for k in ["a", "A", "ab", "aB"] {
        let mut d = Dict::new();
        d.insert(k.to_string(), Value::make_number(1.0));
        p.push(Value::make_dict(d));
    }
    let n = |x: f64| Value::make_number(x);
    p.push(Value::make_list(vec![]));
    p.push(Value::make_list(vec![n(1.0)]));
    p.push(Value::make_list(vec![n(1.0), n(2.0)]));
    p.push(Value::make_list(vec![n(1.0), n(2.0), n(3.0)]));
    p.push(Value::make_list(vec![n(2.0)]));
    p.push(Value::make_list(vec![Value::Null]));
    p.push(Value::make_list(vec![Value::make_list(vec![n(1.0)])]));
    p.push(Value::make_list(vec![n(0.0)]));
    p.push(Value::make_list(vec![n(-0.0)]));
    p.push(Value::make_list(vec![Value::make_number_unit(1.0, u("meter"))]));
    let dicts = dict_pool();
    for d in &dicts {
        p.push(Value::make_dict(d.clone()));
    }
    for g in grid_pool() {
        p.push(Value::make_grid(g));
    }
    p
}

pub fn dict_pool() -> Vec<Dict> {
    let n = |x: f64| Value::make_number(x);
    vec![
        Dict::new(),
        dict_of(&[("a", n(1.0))]),
        dict_of(&[("a", n(2.0))]),
        dict_of(&[("a", n(1.0)), ("b", n(1.0))]),
        dict_of(&[("b", n(1.0))]),
        dict_of(&[("a", n(2.0)), ("b", n(1.0))]),
        dict_of(&[("a", n(1.0)), ("c", n(0.0))]),
        dict_of(&[("a", Value::Marker)]),
        dict_of(&[("a", Value::Null)]),
        dict_of(&[("a", n(0.0))]),
        dict_of(&[("a", n(-0.0))]),
        dict_of(&[("a", Value::make_number_unit(1.0, u("meter")))]),
        dict_of(&[("a", Value::make_number_unit(1.0, u("second")))]),
        dict_of(&[("a", Value::make_ref_with_dis("r", "x"))]),
        dict_of(&[("a", Value::make_ref_with_dis("r", "y"))]),
        dict_of(&[("b", n(0.0)), ("c", n(5.0))]),
        dict_of(&[("a", Value::make_dict(dict_of(&[("x", n(1.0))])))]),
        dict_of(&[("a", Value::make_dict(dict_of(&[("x", n(2.0))])))]),
        // records (with an id) mixed with plain dicts: an order that looks at ids first breaks transitivity
        dict_of(&[("id", Value::make_ref("a")), ("z", Value::Marker)]),
        dict_of(&[("a", Value::Marker), ("id", Value::make_ref("b"))]),
        dict_of(&[("id", Value::make_ref("b")), ("z", Value::Marker)]),
        dict_of(&[("id", Value::make_ref_with_dis("a", "A")), ("y", n(1.0))]),
        dict_of(&[("b", Value::Marker)]),
        dict_of(&[("id", n(1.0))]),
    ]
}

pub fn grid_pool() -> Vec<Grid> {
    let n = |x: f64| Value::make_number(x);
    let base = Grid::make_from_dicts(vec![dict_of(&[("a", n(1.0))])]);
    let mut out = vec![Grid::default(), Grid::make_empty(), base.clone()];
    let mut g = base.clone();
    g.meta = Some(Dict::new());
    out.push(g);
    let mut g = base.clone();
    g.meta = Some(dict_of(&[("m", Value::Marker)]));
    out.push(g);
    let mut g = base.clone();
    g.columns = vec![col("a", Some(dict_of(&[("m", Value::Marker)])))];
    out.push(g);
    for ver in ["2.0", "3", "3.00", "03.0", "3e0", "NaN", ""] {
        let mut g = base.clone();
        g.ver = ver.into();
        out.push(g);
    }
    out.push(Grid::make_from_dicts(vec![dict_of(&[("a", n(2.0))])]));
    out.push(Grid::make_from_dicts(vec![dict_of(&[("a", n(1.0))]), dict_of(&[("a", n(1.0))])]));
    out.push(Grid::make_from_dicts(vec![dict_of(&[("a", n(1.0)), ("b", n(1.0))])]));
    out.push(Grid::make_from_dicts(vec![dict_of(&[("a", n(0.0))])]));
    out.push(Grid::make_from_dicts(vec![dict_of(&[("a", n(-0.0))])]));
    out.push(Grid::make_err("x"));
    out
}

fn vclass(v: &Value) -> String {
    crate::shrink::shape(&observe(v))
}

/// Small random values over a tiny alphabet so that near-collisions are frequent.
fn small_value(rng: &mut Rng, depth: usize) -> Value {
    let nums = [0.0, -0.0, 1.0, 2.0, -1.0, 0.5, 1000.0, 0.001];
    let strs = ["", "a", "b"];
    let units = ["meter", "second", "kilometer", "millisecond"];
    let k = if depth == 0 { rng.below(9) } else { rng.below(12) };
    match k {
        0 => Value::Null,
        1 => Value::Marker,
        2 => Value::make_bool(rng.coin()),
        3 => Value::make_number(*rng.pick(&nums)),
        4 => Value::make_number_unit(*rng.pick(&nums), u(*rng.pick::<&str>(&units))),
        5 => Value::make_str(*rng.pick::<&str>(&strs)),
        6 => {
            if rng.coin() {
                Value::make_ref(*rng.pick::<&str>(&strs))
            } else {
                Value::make_ref_with_dis(*rng.pick::<&str>(&strs), *rng.pick::<&str>(&strs))
            }
        }
        7 => Value::make_coord_from(*rng.pick(&nums), *rng.pick(&nums)),
        8 => match rng.below(3) {
            0 => Value::make_uri(*rng.pick::<&str>(&strs)),
            1 => Value::make_symbol(*rng.pick::<&str>(&strs)),
            _ => Value::Na,
        },
        9 => Value::make_list((0..rng.below(3)).map(|_| small_value(rng, depth - 1)).collect()),
        10 => {
            let mut d = Dict::new();
            for _ in 0..rng.below(3) {
                d.insert(rng.pick(&["a", "b", "c", "id", "z"]).to_string(), small_value(rng, depth - 1));
            }
            Value::make_dict(d)
        }
        _ => {
            let rows: Vec<Dict> = (0..rng.below(3))
                .map(|_| {
                    let mut d = Dict::new();
                    for _ in 0..rng.below(3) {
                        d.insert(rng.pick(&["a", "b"]).to_string(), small_value(rng, depth - 1));
                    }
                    d
                })
                .collect();
            let mut g = Grid::make_from_dicts(rows);
            if rng.chance(1, 3) {
                g.meta = Some(dict_of(&[("m", small_value(rng, 0))]));
            }
            Value::make_grid(g)
        }
    }
}

pub fn run(ctx: &mut Ctx) {
    if ctx.begin("fixed-pools", 0) {
        let r = catch(|| fixed_pool());
        let pool = match r {
            Ok(p) => p,
            Err(p) => {
                ctx.violation("pool-construction-panicked", &p.msg, json!({}));
                return;
            }
        };
        for v in &pool {
            ctx.eval("pool:value", observe(v).fp(), true);
        }
        ctx.note("fixed_pool_size", json!(pool.len()));
        ctx.sample("fixed-pool", json!(pool.iter().take(60).map(|v| truncate(&observe(v).show(), 60)).collect::<Vec<_>>()));
        let fc: fn(&Value, &Value) -> Ordering = |a, b| a.cmp(b);
        check_pool(ctx, "Value", &pool, Some(fc), &vclass, true);
        check_ord_containers(ctx, "Value", &pool);
        // typed pools
        let numbers: Vec<Number> = pool.iter().filter_map(|v| Number::try_from(v).ok()).collect();
        check_pool(ctx, "Number", &numbers, Some(|a: &Number, b: &Number| a.cmp(b)), &|n| vclass(&Value::from(*n)), true);
        // Number's own partial order deliberately has no answer across units (the statement only requires
        // that an answer, when given, is the total order's), so sort()/BTreeSet of bare Numbers is checked
        // per unit; mixed-unit behaviour is checked through Value, which is what collections hold.
        let unitless: Vec<Number> = numbers.iter().filter(|n| n.unit.is_none()).cloned().collect();
        check_ord_containers(ctx, "Number", &unitless);
        let meters: Vec<Number> = numbers.iter().filter(|n| n.unit.is_some_and(|u| u.name() == "meter")).cloned().collect();
        check_ord_containers(ctx, "Number", &meters);
        let coords: Vec<Coord> = pool.iter().filter_map(|v| Coord::try_from(v).ok()).collect();
        check_pool(ctx, "Coord", &coords, Some(|a: &Coord, b: &Coord| a.cmp(b)), &|_| "coord".into(), true);
        check_ord_containers(ctx, "Coord", &coords);
        let refs: Vec<Ref> = pool.iter().filter_map(|v| Ref::try_from(v).ok()).collect();
        check_pool(ctx, "Ref", &refs, Some(|a: &Ref, b: &Ref| a.cmp(b)), &|_| "ref".into(), true);
        check_ord_containers(ctx, "Ref", &refs);
        let dicts = dict_pool();
        check_pool(ctx, "Dict", &dicts, Some(|a: &Dict, b: &Dict| a.cmp(b)), &|d| vclass(&Value::from(d.clone())), true);
        check_ord_containers(ctx, "Dict", &dicts);
        let grids = grid_pool();
        check_pool(ctx, "Grid", &grids, Some(|a: &Grid, b: &Grid| a.cmp(b)), &|_| "grid".into(), true);
        check_ord_containers(ctx, "Grid", &grids);
        let cols: Vec<Column> = vec![
            col("a", None),
            col("a", Some(Dict::new())),
            col("b", None),
            col("a", Some(dict_of(&[("m", Value::Marker)]))),
            col("a", Some(dict_of(&[("m", Value::make_number(0.0))]))),
            col("a", Some(dict_of(&[("m", Value::make_number(-0.0))]))),
        ];
        check_pool(ctx, "Column", &cols, Some(|a: &Column, b: &Column| a.cmp(b)), &|_| "column".into(), true);
        check_ord_containers(ctx, "Column", &cols);
        macro_rules! typed {
            ($t:ty, $name:expr) => {{
                let xs: Vec<$t> = pool.iter().filter_map(|v| <$t>::try_from(v).ok()).collect();
                check_pool(ctx, $name, &xs, Some(|a: &$t, b: &$t| a.cmp(b)), &|_| $name.to_lowercase(), true);
                check_ord_containers(ctx, $name, &xs);
            }};
        }
        typed!(Str, "Str");
        typed!(Uri, "Uri");
        typed!(Symbol, "Symbol");
        typed!(XStr, "XStr");
        typed!(Bool, "Bool");
        // Date / Time / DateTime have no Hash of their own: ordering laws only, through Value for hashing
        let dates: Vec<Date> = pool.iter().filter_map(|v| Date::try_from(v).ok()).collect();
        check_ord_containers(ctx, "Date", &dates);
        let times: Vec<Time> = pool.iter().filter_map(|v| Time::try_from(v).ok()).collect();
        check_ord_containers(ctx, "Time", &times);
        let dts: Vec<DateTime> = pool.iter().filter_map(|v| DateTime::try_from(v).ok()).collect();
        check_ord_containers(ctx, "DateTime", &dts);
        // units: Eq + Hash + PartialOrd (no Ord)
        let mut units: Vec<&'static Unit> = ["meter", "second", "kilowatt", "percent", "fahrenheit", "celsius", "byte", "kilobyte"].iter().map(|n| u(n)).collect();
        units.push(&*libhaystack::units::DEFAULT_UNIT);
        units.extend(crate::bridge::all_units().iter().take(40));
        check_pool(ctx, "Unit", &units, None, &|_| "unit".into(), false);
    }
    // random pools of small values: all pairs and triples within each pool
    let n = ctx.n(150, 6_000);
    for i in 0..n {
        if !ctx.begin("random-pool", i) {
            continue;
        }
        let mut rng = ctx.case_rng("random-pool", i);
        let size = 8 + rng.below(10);
        let pool: Vec<Value> = (0..size).map(|_| small_value(&mut rng, 2)).collect();
        for v in &pool {
            let m = observe(v);
            ctx.eval("random:value", m.fp(), !matches!(m, MVal::Null | MVal::Marker | MVal::Na | MVal::Bool(_)));
        }
        if ctx.wants_sample("random-pool") {
            ctx.sample("random-pool", json!(pool.iter().map(|v| truncate(&observe(v).show(), 80)).collect::<Vec<_>>()));
        }
        let fc: fn(&Value, &Value) -> Ordering = |a, b| a.cmp(b);
        check_pool(ctx, "Value", &pool, Some(fc), &vclass, true);
        check_ord_containers(ctx, "Value", &pool);
    }
    // pools drawn from the well-formed generator (wide payloads, few collisions) plus clones and re-built twins
    let n = ctx.n(100, 4_000);
    for i in 0..n {
        if !ctx.begin("generated-pool", i) {
            continue;
        }
        let mut rng = ctx.case_rng("generated-pool", i);
        let mut pool: Vec<Value> = Vec::new();
        for _ in 0..6 {
            let m = crate::gen::gen_value(&mut rng, 2);
            if contains_nan(&m) {
                continue;
            }
            ctx.eval("generated:value", m.fp(), m.size() > 1);
            // the same model value bridged twice (None vs Some({}) meta presentation may differ: those are
            // different Values for ==, which is fine; what must hold is the laws)
            pool.push(to_value_with(&m, rng.next_u64()));
            pool.push(to_value_with(&m, rng.next_u64()));
        }
        let fc: fn(&Value, &Value) -> Ordering = |a, b| a.cmp(b);
        check_pool(ctx, "Value", &pool, Some(fc), &vclass, false);
        check_ord_containers(ctx, "Value", &pool);
    }
}

fn contains_nan(m: &MVal) -> bool {
    let mut nan = false;
    m.walk(&mut |n| match n {
        MVal::Num(f, _) if f.0.is_nan() => nan = true,
        MVal::Coord(a, b) if a.0.is_nan() || b.0.is_nan() => nan = true,
        _ => {}
    });
    nan
}
