//! A family of `Read` implementations: arbitrary chunk sizes, `Interrupted` on every other call,
//! a sticky I/O error from a given offset on, and byte-consumption counting.

use crate::prng::Rng;
use std::cell::Cell;
use std::io::{Error, ErrorKind, Read};
use std::rc::Rc;

#[derive(Clone, Copy, Debug)]
pub enum Chunking {
    One,
    Two,
    Seven,
    Random(u64),
    Whole,
}

pub struct HostileReader<'a> {
    data: &'a [u8],
    pos: usize,
    chunking: Chunking,
    interrupt: bool,
    calls: u64,
    fail_at: Option<usize>,
    rng: Rng,
    /// bytes handed out so far (shared so the caller can watch it while the parser owns the reader)
    pub consumed: Rc<Cell<usize>>,
}

impl<'a> HostileReader<'a> {
    pub fn new(data: &'a [u8], chunking: Chunking, interrupt: bool, fail_at: Option<usize>) -> Self {
        let seed = match chunking {
            Chunking::Random(s) => s,
            _ => 1,
        };
        HostileReader { data, pos: 0, chunking, interrupt, calls: 0, fail_at, rng: Rng::new(seed), consumed: Rc::new(Cell::new(0)) }
    }
}

impl Read for HostileReader<'_> {
    fn read(&mut self, buf: &mut [u8]) -> Result<usize, Error> {
        self.calls += 1;
        if self.interrupt && self.calls % 2 == 1 {
            return Err(Error::new(ErrorKind::Interrupted, "interrupted"));
        }
        if let Some(f) = self.fail_at {
            if self.pos >= f {
                // the kinds a real source fails with for good (payload-less and with a message); never a kind that the
                // std contract asks the caller to retry forever
                return Err(match f % 6 {
                    0 => Error::new(ErrorKind::Other, "injected I/O error"),
                    1 => Error::from(ErrorKind::WouldBlock),
                    2 => Error::from(ErrorKind::TimedOut),
                    3 => Error::from(ErrorKind::BrokenPipe),
                    4 => Error::from(ErrorKind::UnexpectedEof),
                    _ => Error::from_raw_os_error(5),
                });
            }
        }
        if buf.is_empty() {
            return Ok(0);
        }
        let want = match self.chunking {
            Chunking::One => 1,
            Chunking::Two => 2,
            Chunking::Seven => 7,
            Chunking::Random(_) => 1 + self.rng.below(13),
            Chunking::Whole => usize::MAX,
        };
        let mut n = want.min(buf.len()).min(self.data.len() - self.pos);
        if let Some(f) = self.fail_at {
            n = n.min(f - self.pos);
        }
        buf[..n].copy_from_slice(&self.data[self.pos..self.pos + n]);
        self.pos += n;
        self.consumed.set(self.pos);
        Ok(n)
    }
}

pub fn pick_chunking(rng: &mut Rng) -> Chunking {
    match rng.below(5) {
        0 => Chunking::One,
        1 => Chunking::Two,
        2 => Chunking::Seven,
        3 => Chunking::Random(rng.next_u64()),
        _ => Chunking::Whole,
    }
}

/// A sink that takes at most `chunk` bytes per write() and answers Interrupted on every third call; it never fails
/// for good, so a correct streaming encoder delivers exactly the bytes of the buffered encoding.
pub struct ShortWriter {
    pub out: Vec<u8>,
    pub chunk: usize,
    pub calls: u64,
}
impl ShortWriter {
    pub fn new(chunk: usize) -> Self {
        ShortWriter { out: Vec::new(), chunk: chunk.max(1), calls: 0 }
    }
}
impl std::io::Write for ShortWriter {
    fn write(&mut self, buf: &[u8]) -> std::io::Result<usize> {
        self.calls += 1;
        if self.calls % 3 == 2 {
            return Err(std::io::Error::from(std::io::ErrorKind::Interrupted));
        }
        let n = buf.len().min(self.chunk);
        self.out.extend_from_slice(&buf[..n]);
        Ok(n)
    }
    fn flush(&mut self) -> std::io::Result<()> {
        Ok(())
    }
}
