//! C06 — timestamps keep their instant, offset and zone through every constructor and codec.

use crate::bridge::{mdatetime, observe_datetime, short_zone_name, unambiguous_zones};
use crate::ctx::Ctx;
use crate::model::MDateTime;
use crate::refzinc::civil_from_days;
use crate::util::{catch, panic_sig};
use chrono::{Offset, TimeZone};
use chrono_tz::Tz;
use libhaystack::encoding::zinc::decode::from_str;
use libhaystack::encoding::zinc::encode::to_zinc_string;
use libhaystack::val::{DateTime, Value};
use serde_json::json;

const T1980: i64 = 315532800;
const T2060: i64 = 2840140800;

fn offset_at(tz: Tz, secs: i64) -> i32 {
    tz.timestamp_opt(secs, 0).unwrap().offset().fix().local_minus_utc()
}

/// All instants in [1980, 2060) at which the zone's UTC offset changes (day-step scan + bisection).
pub fn transitions(tz: Tz) -> Vec<(i64, i32, i32)> {
    let mut out = Vec::new();
    let mut t = T1980;
    let mut o = offset_at(tz, t);
    while t < T2060 {
        let n = (t + 86400).min(T2060);
        let on = offset_at(tz, n);
        if on != o {
            let (mut lo, mut hi) = (t, n);
            while hi - lo > 1 {
                let mid = lo + (hi - lo) / 2;
                if offset_at(tz, mid) == o {
                    lo = mid;
                } else {
                    hi = mid;
                }
            }
            out.push((hi, o, offset_at(tz, hi)));
            // more than one change inside a day is vanishingly rare; continue from the found instant
            t = hi;
            o = offset_at(tz, hi);
            continue;
        }
        t = n;
        o = on;
    }
    out
}

/// RFC 3339 text of an instant at a given offset, with `digits` fraction digits.
pub fn rfc3339(secs: i64, nanos: u32, offset: i32, digits: u32, z_for_zero: bool) -> String {
    let local = secs + offset as i64;
    let (y, m, d) = civil_from_days(local.div_euclid(86400));
    let sod = local.rem_euclid(86400);
    let mut s = format!("{:04}-{:02}-{:02}T{:02}:{:02}:{:02}", y, m, d, sod / 3600, (sod / 60) % 60, sod % 60);
    if digits > 0 {
        let f = format!("{:09}", nanos);
        s.push('.');
        s.push_str(&f[..digits as usize]);
    }
    if offset == 0 && z_for_zero {
        s.push('Z');
    } else {
        let a = offset.abs();
        s.push_str(&format!("{}{:02}:{:02}", if offset < 0 { '-' } else { '+' }, a / 3600, (a / 60) % 60));
    }
    s
}

fn nanos_for(digits: u32, k: u64) -> u32 {
    if digits == 0 {
        0
    } else {
        // exactly `digits` significant fraction digits (last one non-zero)
        let scale = 10u32.pow(9 - digits);
        let max = 10u64.pow(digits);
        let mut v = (crate::prng::mix(&[k, digits as u64]) % max) as u32;
        if v % 10 == 0 {
            v += 1;
        }
        v * scale
    }
}

fn expect(ctx: &mut Ctx, path: &str, what: &str, got: Result<Result<DateTime, String>, crate::util::Panic>, want: &MDateTime, allow_err: bool, text: &str) {
    match got {
        Err(p) => ctx.violation(&format!("{path}:{}", panic_sig(&p)), &format!("{what} panicked: {}", p.msg), json!({"text": text})),
        Ok(Err(e)) => {
            if !allow_err {
                ctx.violation(&format!("{path}:rejected:{}", class_of(want)), &format!("{what} rejected {text:?}: {e}"), json!({"text": text, "expected": format!("{want:?}")}));
            } else {
                ctx.stratum(&format!("{path}:rejected-allowed"));
            }
        }
        Ok(Ok(dt)) => {
            let g = observe_datetime(&dt);
            if g.secs != want.secs || g.nanos != want.nanos {
                ctx.violation(&format!("{path}:instant:{}", class_of(want)), &format!("{what} of {text:?} denotes instant {}.{:09} instead of {}.{:09} (off by {} s)", g.secs, g.nanos, want.secs, want.nanos, g.secs - want.secs), json!({"text": text}));
            } else if !want.tz.is_empty() && (g.tz != want.tz || g.offset != want.offset) {
                ctx.violation(&format!("{path}:zone:{}", class_of(want)), &format!("{what} of {text:?} gives zone {} offset {} instead of {} offset {}", g.tz, g.offset, want.tz, want.offset), json!({"text": text}));
            }
        }
    }
}

fn class_of(d: &MDateTime) -> &'static str {
    let a = d.offset.abs();
    if d.tz == "UTC" {
        "utc"
    } else if a % 3600 != 0 {
        "offset-not-whole-hour"
    } else if a >= 36000 {
        "offset>=10h"
    } else {
        "zone"
    }
}

fn dt_of(v: Result<Value, String>) -> Result<DateTime, String> {
    match v {
        Ok(Value::DateTime(d)) => Ok(d),
        Ok(other) => Err(format!("decoded to a {:?}", libhaystack::val::kind::HaystackKind::from(&other))),
        Err(e) => Err(e),
    }
}

/// All paths for one (zone, instant, fraction digits).
fn check_instant(ctx: &mut Ctx, tz: Tz, secs: i64, digits: u32, tag: &str) {
    let nanos = nanos_for(digits, secs as u64);
    let want = mdatetime(tz, secs, nanos);
    let short = if tz == chrono_tz::UTC { "UTC".to_string() } else { short_zone_name(tz.name()).to_string() };
    let text = rfc3339(secs, nanos, want.offset, digits, (secs & 1) == 0);
    ctx.eval(tag, crate::prng::mix(&[crate::prng::hash_str(tz.name()), secs as u64, digits as u64]), true);
    // A: constructor from RFC 3339 text + zone name (city and full name)
    expect(ctx, "rfc3339+city", "parse_from_rfc3339_with_timezone", catch(|| DateTime::parse_from_rfc3339_with_timezone(&text, &short)), &want, false, &format!("{text} {short}"));
    expect(ctx, "rfc3339+iana", "parse_from_rfc3339_with_timezone", catch(|| DateTime::parse_from_rfc3339_with_timezone(&text, tz.name())), &want, false, &format!("{text} {}", tz.name()));
    // the same instant written with a *different* (e.g. UTC) offset must land on the same instant in the zone
    let utc_text = rfc3339(secs, nanos, 0, digits, true);
    expect(ctx, "rfc3339utc+city", "parse_from_rfc3339_with_timezone", catch(|| DateTime::parse_from_rfc3339_with_timezone(&utc_text, &short)), &want, false, &format!("{utc_text} {short}"));
    // B: Zinc text written by the harness, and round trip of the library's own value
    let ztext = if short == "UTC" { utc_text.clone() } else { format!("{text} {short}") };
    expect(ctx, "zinc-text", "zinc::from_str", catch(|| dt_of(from_str(&ztext).map_err(|e| e.to_string()))), &want, false, &ztext);
    // ... and decoded from a reader that hands out 1-13 bytes at a time and is interrupted on every other call
    let zr = catch(|| {
        let mut r = crate::readers::HostileReader::new(ztext.as_bytes(), crate::readers::Chunking::Random(secs as u64), true, None);
        dt_of(libhaystack::encoding::zinc::decode::parser::Parser::make(&mut r).and_then(|mut p| p.parse_value()).map_err(|e| e.to_string()))
    });
    expect(ctx, "zinc-text-from-reader", "zinc Parser::make(reader).parse_value", zr, &want, false, &ztext);
    let lib_val = Value::make_datetime(DateTime::from(tz.timestamp_opt(secs, nanos).unwrap()));
    let z = catch(|| to_zinc_string(&lib_val).map_err(|e| e.to_string()).and_then(|t| dt_of(from_str(&t).map_err(|e| format!("{e} (text {t})")))));
    expect(ctx, "zinc-roundtrip", "Zinc encode->decode", z, &want, false, &ztext);
    // the same through the streaming encoder into a sink that takes a few bytes per write()
    let zs = catch(|| {
        let mut w = crate::readers::ShortWriter::new(1 + (secs.unsigned_abs() % 5) as usize);
        libhaystack::encoding::zinc::encode::ToZinc::to_zinc(&lib_val, &mut w).map_err(|e| e.to_string())?;
        let t = String::from_utf8(w.out).map_err(|e| e.to_string())?;
        dt_of(from_str(&t).map_err(|e| format!("{e} (text {t})")))
    });
    expect(ctx, "zinc-roundtrip-short-writes", "Zinc to_zinc(writer)->decode", zs, &want, false, &ztext);
    // C: Hayson
    let doc = if short == "UTC" && (secs & 2) == 0 { json!({"_kind": "dateTime", "val": utc_text}) } else { json!({"_kind": "dateTime", "val": text, "tz": short}) }.to_string();
    expect(ctx, "hayson-text", "serde_json::from_str", catch(|| dt_of(serde_json::from_str::<Value>(&doc).map_err(|e| e.to_string()))), &want, false, &doc);
    let j = catch(|| serde_json::to_string(&lib_val).map_err(|e| e.to_string()).and_then(|t| dt_of(serde_json::from_str::<Value>(&t).map_err(|e| format!("{e} (doc {t})")))));
    expect(ctx, "hayson-roundtrip", "Hayson encode->decode", j, &want, false, &doc);
    // A': the instant written at a third offset (neither the zone's nor UTC) lands on the same instant in the zone
    let third_off = [5 * 3600 + 45 * 60, -(3 * 3600 + 30 * 60), 14 * 3600, -12 * 3600, 3600, -9 * 3600][(secs.unsigned_abs() % 6) as usize];
    let third_text = rfc3339(secs, nanos, third_off, digits, true);
    expect(ctx, "rfc3339third+city", "parse_from_rfc3339_with_timezone", catch(|| DateTime::parse_from_rfc3339_with_timezone(&third_text, &short)), &want, false, &format!("{third_text} {short}"));
    // B'/C': the same timestamp as an element of a list, a tag of a dict and a cell of a grid (followed by ',' / ' ' / newline)
    {
        let first_dt = |v: Result<Value, String>| -> Result<DateTime, String> {
            let v = v?;
            let pick = |d: &libhaystack::val::Dict| -> Result<DateTime, String> {
                match (d.get("a"), d.get("b")) {
                    (Some(Value::DateTime(a)), Some(Value::DateTime(b))) if observe_datetime(a) == observe_datetime(b) => Ok(*a),
                    other => Err(format!("tags a/b are {other:?}")),
                }
            };
            match &v {
                Value::List(l) => match (l.first(), l.get(1), l.len()) {
                    (Some(Value::DateTime(a)), Some(Value::DateTime(b)), 2) if observe_datetime(a) == observe_datetime(b) => Ok(*a),
                    _ => Err(format!("list decoded to {}", crate::ctx::truncate(&format!("{v:?}"), 200))),
                },
                Value::Dict(d) => pick(d),
                Value::Grid(g) => match g.rows.first() {
                    Some(r) if g.rows.len() == 1 => pick(r),
                    _ => Err(format!("grid has {} rows", g.rows.len())),
                },
                other => Err(format!("decoded to a {:?}", libhaystack::val::kind::HaystackKind::from(other))),
            }
        };
        let which = (secs.unsigned_abs() / 7) % 3;
        let ctext = match which {
            0 => format!("[{ztext},{ztext}]"),
            1 => format!("{{a:{ztext},b:{ztext}}}"),
            _ => format!("ver:\"3.0\"\na,b\n{ztext},{ztext}\n"),
        };
        expect(ctx, "zinc-text-in-container", "zinc::from_str", catch(|| first_dt(from_str(&ctext).map_err(|e| e.to_string()))), &want, false, &ctext);
        let mut d = libhaystack::val::Dict::new();
        d.insert("a".into(), lib_val.clone());
        d.insert("b".into(), lib_val.clone());
        let cval = match which {
            0 => Value::make_list(vec![lib_val.clone(), lib_val.clone()]),
            1 => Value::make_dict(d),
            _ => Value::make_grid_from_dicts(vec![d]),
        };
        let z = catch(|| to_zinc_string(&cval).map_err(|e| e.to_string()).and_then(|t| first_dt(from_str(&t).map_err(|e| format!("{e} (text {t})")))));
        expect(ctx, "zinc-roundtrip-in-container", "Zinc encode->decode", z, &want, false, &ctext);
        let j = catch(|| serde_json::to_string(&cval).map_err(|e| e.to_string()).and_then(|t| first_dt(serde_json::from_str::<Value>(&t).map_err(|e| format!("{e} (doc {t})")))));
        expect(ctx, "hayson-roundtrip-in-container", "Hayson encode->decode", j, &want, false, &ctext);
    }
    // F: the accessors of the value itself, and the constructors from chrono's own types
    {
        let lib_dt = DateTime::from(tz.timestamp_opt(secs, nanos).unwrap());
        match catch(|| (lib_dt.is_utc(), lib_dt.timezone_short_name())) {
            Ok((u, name)) => {
                if u != (short == "UTC") {
                    ctx.violation(&format!("accessor:is_utc:{}", class_of(&want)), &format!("is_utc() = {u} for a timestamp in {}", tz.name()), json!({"zone": tz.name()}));
                }
                if name != short {
                    ctx.violation(&format!("accessor:timezone_short_name:{}", class_of(&want)), &format!("timezone_short_name() = {name:?} for {}, the city name is {short:?}", tz.name()), json!({"zone": tz.name()}));
                }
            }
            Err(p) => ctx.violation(&format!("accessor:{}", panic_sig(&p)), &p.msg, json!({"zone": tz.name()})),
        }
        use chrono::TimeZone as _;
        let utc_want = mdatetime(chrono_tz::UTC, secs, nanos);
        expect(ctx, "from-chrono-utc", "DateTime::from(chrono::DateTime<Utc>)", catch(|| Ok(DateTime::from(chrono::Utc.timestamp_opt(secs, nanos).unwrap()))), &utc_want, false, &utc_text);
        let fixed = chrono::FixedOffset::east_opt(want.offset).unwrap().timestamp_opt(secs, nanos).unwrap();
        expect(ctx, "make_date_time_with_tz", "timezone::make_date_time_with_tz", catch(|| libhaystack::timezone::make_date_time_with_tz(&fixed, &short).map(DateTime::from)), &want, false, &format!("{text} {short}"));
        let mut any = want.clone();
        any.tz = String::new();
        expect(ctx, "make_date_time", "timezone::make_date_time", catch(|| libhaystack::timezone::make_date_time(fixed).map(DateTime::from)), &any, true, &text);
    }
    // E: the C API: an instant (UTC date + time) and a zone name -> that instant in that zone; getters give it back
    capi_instant(ctx, tz, secs, nanos, &want, &short);
    // D: zone-less constructors: Err or exactly the instant (zone/offset of the result are not prescribed)
    let mut any = want.clone();
    any.tz = String::new();
    expect(ctx, "rfc3339", "parse_from_rfc3339", catch(|| DateTime::parse_from_rfc3339(&text)), &any, true, &text);
    expect(ctx, "make_datetime_from_iso", "Value::make_datetime_from_iso", catch(|| dt_of(Value::make_datetime_from_iso(&text))), &any, true, &text);
    expect(ctx, "from_str", "DateTime::from_str", catch(|| text.parse::<DateTime>()), &any, true, &text);
}

fn capi_instant(ctx: &mut Ctx, tz: Tz, secs: i64, nanos: u32, want: &MDateTime, short: &str) {
    use libhaystack::c_api::datetime::*;
    use libhaystack::c_api::err::last_error_message;
    use libhaystack::c_api::str::haystack_string_destroy;
    use libhaystack::c_api::value::*;
    use std::ffi::{CStr, CString};
    let (y, mo, d) = civil_from_days(secs.div_euclid(86400));
    let sod = secs.rem_euclid(86400) as u32;
    let r = catch(|| unsafe {
        let date = haystack_value_make_date(y as i32, mo, d).map(Box::into_raw);
        // millisecond times through the constructor, finer ones through a decoded Time value
        let time = if nanos % 1_000_000 == 0 {
            haystack_value_make_time_millis(sod / 3600, (sod / 60) % 60, sod % 60, nanos / 1_000_000).map(Box::into_raw)
        } else {
            let t = CString::new(format!("{:02}:{:02}:{:02}.{:09}", sod / 3600, (sod / 60) % 60, sod % 60, nanos)).unwrap();
            libhaystack::c_api::zinc::haystack_value_from_zinc_string(t.as_ptr()).map(Box::into_raw)
        };
        let (Some(date), Some(time)) = (date, time) else { return Err("make_date/make_time failed".to_string()) };
        let zname = CString::new(if tz == chrono_tz::UTC { "UTC" } else { short }).unwrap();
        let dt = if tz == chrono_tz::UTC && secs % 2 == 0 { haystack_value_make_utc_datetime(date, time) } else { haystack_value_make_tz_datetime(date, time, zname.as_ptr()) };
        let out = match dt {
            None => {
                let e = last_error_message();
                let msg = if e.is_null() { "no error message".to_string() } else { let m = CStr::from_ptr(e).to_string_lossy().to_string(); haystack_string_destroy(e as *mut _); m };
                Err(format!("make_tz_datetime failed: {msg}"))
            }
            Some(b) => {
                let p = Box::into_raw(b);
                let got = match &*p {
                    Value::DateTime(d) => Some(observe_datetime(d)),
                    _ => None,
                };
                // getters: local date/time and zone name
                let ld = Box::into_raw(haystack_value_init());
                let lt = Box::into_raw(haystack_value_init());
                let r1 = haystack_value_get_datetime_date(p, false, ld);
                let r2 = haystack_value_get_datetime_time(p, false, lt);
                // ... and the UTC date/time of the same instant
                let ud = Box::into_raw(haystack_value_init());
                let ut = Box::into_raw(haystack_value_init());
                let r3 = haystack_value_get_datetime_date(p, true, ud);
                let r4 = haystack_value_get_datetime_time(p, true, ut);
                let utc_parts = (crate::bridge::observe(&*ud), crate::bridge::observe(&*ut), format!("{r3:?}{r4:?}"));
                haystack_value_destroy(ud);
                haystack_value_destroy(ut);
                let zn = haystack_value_get_datetime_timezone(p);
                let zs = if zn.is_null() { String::new() } else { let z = CStr::from_ptr(zn).to_string_lossy().to_string(); haystack_string_destroy(zn as *mut _); z };
                let local = (crate::bridge::observe(&*ld), crate::bridge::observe(&*lt), format!("{r1:?}{r2:?}"));
                for q in [ld, lt, p] {
                    haystack_value_destroy(q);
                }
                Ok((got, local, zs, utc_parts))
            }
        };
        haystack_value_destroy(date);
        haystack_value_destroy(time);
        out
    });
    ctx.stratum("c-api");
    match r {
        Err(p) => ctx.violation(&format!("c-api:{}", panic_sig(&p)), &p.msg, json!({"zone": tz.name(), "secs": secs})),
        Ok(Err(e)) => ctx.violation(&format!("c-api:rejected:{}", class_of(want)), &format!("{e} for instant {secs} in {}", tz.name()), json!({})),
        Ok(Ok((got, (ld, lt, rr), zs, (ud, ut, ur)))) => {
            {
                let (uy, um, udd) = civil_from_days(secs.div_euclid(86400));
                let want_d = crate::model::MVal::Date(uy as i32, um, udd);
                let want_t = crate::model::MVal::Time(sod / 3600, (sod / 60) % 60, sod % 60, nanos);
                if ud != want_d || ut != want_t || ur != "TRUETRUE" {
                    ctx.violation(&format!("c-api:get_datetime_utc:{}", class_of(want)), &format!("UTC date/time getters give {} {} ({ur}), expected {} {}", ud.show(), ut.show(), want_d.show(), want_t.show()), json!({"zone": tz.name(), "secs": secs}));
                }
            }
            match got {
                Some(g) if g == *want => {}
                other => ctx.violation(&format!("c-api:make_tz_datetime:{}", class_of(want)), &format!("instant {secs}.{nanos:09} in {} gives {:?}, expected {:?}", tz.name(), other, want), json!({})),
            }
            let local = secs + want.offset as i64;
            let (ly, lm, ldd) = civil_from_days(local.div_euclid(86400));
            let lsod = local.rem_euclid(86400) as u32;
            let want_d = crate::model::MVal::Date(ly as i32, lm, ldd);
            let want_t = crate::model::MVal::Time(lsod / 3600, (lsod / 60) % 60, lsod % 60, nanos);
            if ld != want_d || lt != want_t || rr != "TRUETRUE" {
                ctx.violation(&format!("c-api:get_datetime_local:{}", class_of(want)), &format!("local date/time getters give {} {} ({rr}), expected {} {}", ld.show(), lt.show(), want_d.show(), want_t.show()), json!({"zone": tz.name(), "secs": secs}));
            }
            if zs != want.tz {
                ctx.violation(&format!("c-api:get_datetime_timezone:{}", class_of(want)), &format!("zone name {zs:?}, expected {:?}", want.tz), json!({}));
            }
        }
    }
}

/// The first zone lookups of this process, issued by eight threads at once (a lazily built index or cache that is
/// filled by the first caller must not be visible half-built to the others). One chance per worker process.
fn cold_start(ctx: &mut Ctx) {
    let zones = unambiguous_zones();
    let barrier = std::sync::Barrier::new(8);
    let bad: Vec<String> = std::thread::scope(|s| {
        let hs: Vec<_> = (0..8usize)
            .map(|t| {
                let barrier = &barrier;
                let zones = &zones;
                s.spawn(move || {
                    let mut bad = Vec::new();
                    barrier.wait();
                    // late-alphabet zones first on some threads, early ones on others
                    let order: Vec<usize> = if t % 2 == 0 { (0..zones.len()).rev().collect() } else { (0..zones.len()).collect() };
                    for zi in order.into_iter().filter(|zi| zi % 8 == t) {
                        let tz = zones[zi];
                        let short = short_zone_name(tz.name());
                        let want = mdatetime(tz, 1_610_280_000, 0);
                        let text = rfc3339(1_610_280_000, 0, want.offset, 0, true);
                        let a = crate::util::catch(|| DateTime::parse_from_rfc3339_with_timezone(&text, short));
                        let doc = json!({"_kind": "dateTime", "val": text, "tz": short}).to_string();
                        let b = crate::util::catch(|| dt_of(serde_json::from_str::<Value>(&doc).map_err(|e| e.to_string())));
                        for (how, r) in [("parse_from_rfc3339_with_timezone", a), ("Hayson decode", b)] {
                            match r {
                                Ok(Ok(d)) if observe_datetime(&d) == want => {}
                                Ok(Ok(d)) => bad.push(format!("{how} of {text} {short} on thread {t} gives {:?}", observe_datetime(&d))),
                                Ok(Err(e)) => bad.push(format!("{how} of {text} {short} on thread {t} fails: {e}")),
                                Err(p) => bad.push(format!("{how} of {text} {short} on thread {t} panics: {}", p.msg)),
                            }
                        }
                    }
                    bad
                })
            })
            .collect();
        hs.into_iter().flat_map(|h| h.join().unwrap_or_default()).collect()
    });
    ctx.eval("cold-start", ctx.shard, true);
    ctx.evaluations += 2 * zones.len() as u64;
    for b in bad.iter().take(3) {
        ctx.violation("cold-start:concurrent-first-lookups", &format!("among the first zone lookups of the process, issued by 8 threads at once: {b}"), json!({"failures": bad.len()}));
    }
}

pub fn run(ctx: &mut Ctx) {
    if ctx.begin("cold-start", 0) {
        cold_start(ctx);
    }
    let zones = unambiguous_zones();
    ctx.note("zones_with_unambiguous_city", json!(zones.len()));
    // ---- exhaustive: every zone x every offset transition 1980-2060 x instants around it x fraction digits ----
    let mut total_transitions = 0u64;
    for (zi, tz) in zones.iter().enumerate() {
        if (zi as u64) % ctx.nshards != ctx.shard {
            continue;
        }
        if !ctx.begin("zone", zi as u64) {
            continue;
        }
        let trs = transitions(*tz);
        total_transitions += trs.len() as u64;
        ctx.stratum("zone");
        // a plain summer-noon and winter-midnight probe even for zones without transitions
        for (k, secs) in [1_593_604_800i64, 1_577_836_800, T1980, T2060 - 1].iter().enumerate() {
            check_instant(ctx, *tz, *secs, (k as u32 * 3) % 10, "zone-probe");
        }
        for (ti, (t, o1, o2)) in trs.iter().enumerate() {
            let gap = (*o1 - *o2).abs() as i64;
            // t-1s, t, t+1s; middle of the repeated / skipped local hour on both sides
            let instants = [*t - 1, *t, *t + 1, *t - gap / 2, *t + gap / 2, *t - gap, *t + gap];
            for (ii, secs) in instants.iter().enumerate() {
                if *secs < T1980 || *secs >= T2060 {
                    continue;
                }
                // quick: 2 digit settings per instant, thorough: all ten
                let digit_set: Vec<u32> = if ctx.quick() { vec![((ti + ii) % 10) as u32, 0] } else { (0..10).collect() };
                for d in digit_set {
                    check_instant(ctx, *tz, *secs, d, if o2 < o1 { "transition:fall-back" } else { "transition:spring-forward" });
                }
            }
            // the last nanosecond before the transition
            if *t - 1 >= T1980 {
                let want = mdatetime(*tz, *t - 1, 999_999_999);
                let text = rfc3339(*t - 1, 999_999_999, want.offset, 9, true);
                let short = short_zone_name(tz.name());
                ctx.eval("transition:last-nanosecond", crate::prng::mix(&[zi as u64, *t as u64]), true);
                expect(ctx, "zinc-text", "zinc::from_str", catch(|| dt_of(from_str(&format!("{text} {short}")).map_err(|e| e.to_string()))), &want, false, &text);
            }
            // a local time in the skipped hour, written with the *old* offset: the text still denotes one instant
            if o2 > o1 {
                let secs = *t + gap / 2; // after the jump
                let want = mdatetime(*tz, secs, 0);
                let text = rfc3339(secs, 0, *o1, 0, false); // old offset: local fields fall into the gap
                let short = short_zone_name(tz.name());
                ctx.eval("transition:skipped-hour-old-offset", crate::prng::mix(&[zi as u64, secs as u64]), true);
                expect(ctx, "zinc-text-skipped", "zinc::from_str", catch(|| dt_of(from_str(&format!("{text} {short}")).map_err(|e| e.to_string()))), &want, true, &text);
                expect(ctx, "rfc3339+city-skipped", "parse_from_rfc3339_with_timezone", catch(|| DateTime::parse_from_rfc3339_with_timezone(&text, short)), &want, true, &text);
            }
        }
    }
    ctx.note_add("offset_transitions_examined", total_transitions);
    // UTC itself
    if ctx.shard == 0 && ctx.begin("utc", 0) {
        for d in 0..10 {
            check_instant(ctx, chrono_tz::UTC, 1_600_000_000 + d as i64 * 86_399, d, "utc");
        }
    }
    // ---- every RFC 3339 offset from -12:00 to +14:00 in 15 minute steps x 50 instants ----------------
    if ctx.begin("offsets", 0) {
        let mut count = 0u64;
        let mut off = -12 * 3600;
        while off <= 14 * 3600 {
            for k in 0..50u64 {
                if k % ctx.nshards != ctx.shard {
                    continue;
                }
                let secs = T1980 + (crate::prng::mix(&[off as u64, k]) % (T2060 - T1980) as u64) as i64;
                let digits = (k % 10) as u32;
                let nanos = nanos_for(digits, secs as u64);
                let text = rfc3339(secs, nanos, off, digits, k % 2 == 0);
                let want = MDateTime { secs, nanos, offset: off, tz: String::new() };
                ctx.eval("offset-sweep", crate::prng::mix(&[off as u64, k, 77]), true);
                expect(ctx, "rfc3339", "parse_from_rfc3339", catch(|| DateTime::parse_from_rfc3339(&text)), &want, true, &text);
                expect(ctx, "make_datetime_from_iso", "Value::make_datetime_from_iso", catch(|| dt_of(Value::make_datetime_from_iso(&text))), &want, true, &text);
                // Hayson without tz: the decoder goes through the same constructor
                let doc = json!({"_kind": "dateTime", "val": text}).to_string();
                expect(ctx, "hayson-no-tz", "serde_json::from_str", catch(|| dt_of(serde_json::from_str::<Value>(&doc).map_err(|e| e.to_string()))), &want, true, &doc);
                count += 1;
            }
            off += 900;
        }
        ctx.note_add("offset_sweep_cases", count);
        if ctx.shard == 0 {
            ctx.sample("offset-sweep", json!({"example": rfc3339(T1980 + 12345, 500_000_000, 5 * 3600 + 1800, 1, false)}));
        }
    }
    if ctx.shard == 0 {
        let ny = chrono_tz::America::New_York;
        let trs = transitions(ny);
        ctx.sample("transitions", json!({"zone": ny.name(), "first_transitions": trs.iter().take(3).map(|(t, a, b)| format!("{} {}->{}", rfc3339(*t, 0, 0, 0, true), a, b)).collect::<Vec<_>>(), "count": trs.len()}));
    }
}
