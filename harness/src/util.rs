//! Panic capture with location, fuel-armed execution.

use libhaystack::verif_hooks as hooks;
use std::cell::RefCell;
use std::panic::{catch_unwind, AssertUnwindSafe};

#[derive(Clone, Debug)]
pub struct Panic {
    pub msg: String,
    pub file: String,
    pub line: u32,
    /// Some(site) if this was the fuel limit, not a real panic
    pub fuel_site: Option<usize>,
}

thread_local! {
    static LAST: RefCell<Option<Panic>> = const { RefCell::new(None) };
}

pub fn install_panic_hook() {
    std::panic::set_hook(Box::new(|info| {
        let (file, line) = info.location().map_or(("?".to_string(), 0), |l| (l.file().to_string(), l.line()));
        let payload = info.payload();
        let (msg, fuel_site) = if let Some(f) = payload.downcast_ref::<hooks::FuelExhausted>() {
            ("fuel exhausted".to_string(), Some(f.site))
        } else if let Some(s) = payload.downcast_ref::<&str>() {
            (s.to_string(), None)
        } else if let Some(s) = payload.downcast_ref::<String>() {
            (s.clone(), None)
        } else {
            ("<non-string panic payload>".to_string(), None)
        };
        LAST.with(|l| *l.borrow_mut() = Some(Panic { msg, file, line, fuel_site }));
    }));
}

/// Run `f`, catching a panic (with its message and location).
pub fn catch<T>(f: impl FnOnce() -> T) -> Result<T, Panic> {
    LAST.with(|l| *l.borrow_mut() = None);
    match catch_unwind(AssertUnwindSafe(f)) {
        Ok(v) => Ok(v),
        Err(_) => {
            hooks::disarm();
            Err(LAST.with(|l| l.borrow_mut().take()).unwrap_or(Panic {
                msg: "<panic without hook record>".into(),
                file: "?".into(),
                line: 0,
                fuel_site: None,
            }))
        }
    }
}

pub struct Fueled<T> {
    pub result: Result<T, Panic>,
    pub ticks: [u64; hooks::N_SITES],
}

/// Run `f` with a logical-step fuel limit; a spent limit shows up as `Panic{fuel_site: Some(_)}`.
pub fn with_fuel<T>(fuel: u64, f: impl FnOnce() -> T) -> Fueled<T> {
    hooks::arm(fuel);
    let result = catch(f);
    let ticks = hooks::disarm();
    Fueled { result, ticks }
}

/// Panic signature: in-repo file (path after "src/") + message with digits and quoted data abstracted.
pub fn panic_sig(p: &Panic) -> String {
    let file = match p.file.find("/src/") {
        Some(i) if p.file.starts_with("/repo") => p.file[i + 5..].to_string(),
        _ => {
            // dependency or std: keep crate-relative tail
            let parts: Vec<&str> = p.file.rsplit('/').take(3).collect();
            parts.into_iter().rev().collect::<Vec<_>>().join("/")
        }
    };
    let mut msg = String::new();
    let mut in_digits = false;
    for c in p.msg.chars().take(80) {
        if c.is_ascii_digit() {
            if !in_digits {
                msg.push('#');
            }
            in_digits = true;
        } else {
            in_digits = false;
            msg.push(c);
        }
    }
    // cut at the first quote: what follows is usually data
    if let Some(i) = msg.find(['\'', '"', '`']) {
        msg.truncate(i);
    }
    format!("panic@{}:{}", file, msg.trim())
}

pub fn site_name(site: usize) -> &'static str {
    match site {
        hooks::SITE_SCANNER_READ => "Scanner::read",
        hooks::SITE_ZINC_LEXER_READ => "zinc Lexer::read",
        hooks::SITE_FILTER_LEXER_READ => "filter Lexer::read",
        hooks::SITE_LOOP => "decoder loop iteration",
        _ => "?",
    }
}

/// Run `f` on a thread with std::thread's default stack size (2 MiB) instead of the 8 MiB main-thread stack: that is
/// where a library user's decoder typically runs (any spawned thread, async worker threads), and it makes stack
/// exhaustion four times more visible. A stack overflow there still kills the process (worker death, attributed
/// through the progress marker); a harness panic is passed on.
pub fn on_thread_stack<F: FnOnce(&mut crate::ctx::Ctx) + Send>(ctx: &mut crate::ctx::Ctx, f: F) {
    let r = std::thread::scope(|s| std::thread::Builder::new().name("default-2MiB-stack".into()).stack_size(2 * 1024 * 1024).spawn_scoped(s, || f(ctx)).expect("spawn").join());
    if let Err(e) = r {
        std::panic::resume_unwind(e);
    }
}
