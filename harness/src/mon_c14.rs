//! C14 — namespace caches are invisible: answers ignore query history and thread schedule; concurrent
//! use never deadlocks, panics, or returns a partially built answer.
//!
//! Stress workload with widened race windows (hook H2 yield points), answer monitor against the graph
//! oracle and a cold single-threaded namespace, deadlock detector, and the cache event log as evidence.

use crate::ctx::{truncate, Ctx};
use crate::mon_c13::{graph_of, leak_ns, names, random_taxonomy, reclaim_ns};
use crate::prng::Rng;
use crate::refdefs::Graph;
use libhaystack::defs::namespace::DefDict;
use libhaystack::defs::namespace::Namespace;
use libhaystack::val::{Dict, Grid, Ref, Symbol, Value};
use libhaystack::verif_hooks as hooks;
use serde_json::json;
use std::cell::RefCell;
use std::collections::{BTreeMap, HashMap};
use std::panic::{catch_unwind, AssertUnwindSafe};
use std::sync::atomic::{AtomicBool, AtomicU64, Ordering};
use std::sync::{Arc, Barrier};
use std::time::{Duration, Instant};

#[derive(Clone, Debug)]
pub enum Query {
    Supertypes(String),
    AllSupertypes(String),
    Inheritance(String),
    Fits(String, String),
    Reflect(Vec<(String, bool)>, String),
    Relationship(Vec<(String, Option<String>)>, String, Option<String>, Option<String>),
    Implementation(String),
    Tags(String),
}

fn join(set: impl IntoIterator<Item = String>) -> String {
    let mut v: Vec<String> = set.into_iter().collect();
    v.sort();
    v.join(",")
}

fn rec_of(tags: &[(String, bool)]) -> Dict {
    let mut d = Dict::new();
    for (t, m) in tags {
        // (every record that has an id has the same one: the same entity seen again with other tags)
        d.insert(t.clone(), if *m { Value::Marker } else if t == "id" { Value::make_ref_with_dis("r1", "Entity") } else { Value::make_number(1.0) });
    }
    d
}

fn world() -> HashMap<String, Dict> {
    let mut w = HashMap::new();
    for (id, next) in [("r", "s"), ("s", "t"), ("t", "r")] {
        let mut d = Dict::new();
        d.insert("id".into(), Value::make_ref(id));
        d.insert("siteRef".into(), Value::make_ref(next));
        d.insert("equipRef".into(), Value::make_ref(next));
        d.insert("site".into(), Value::Marker);
        w.insert(id.to_string(), d);
    }
    w
}

/// Answer of a query as a canonical string. The *list* answers include their length so a duplicate or a
/// partially built vector is visible, not only the set of names.
pub fn answer(ns: &'static Namespace<'static>, q: &Query) -> String {
    match q {
        Query::Supertypes(s) => {
            let r = ns.supertypes_of(&Symbol::from(s.as_str()));
            format!("{}#{}", r.len(), join(names(r.iter().copied())))
        }
        Query::AllSupertypes(s) => join(names(ns.all_supertypes_of(&Symbol::from(s.as_str())))),
        Query::Inheritance(s) => {
            let r = ns.inheritance(&Symbol::from(s.as_str()));
            format!("{}#{}", r.len(), join(names(r.iter().copied())))
        }
        Query::Fits(a, b) => ns.fits(&Symbol::from(a.as_str()), &Symbol::from(b.as_str())).to_string(),
        Query::Reflect(tags, probe) => {
            let rec = rec_of(tags);
            let r = ns.reflect(&rec);
            // the entity type is part of the answer too (it is derived from the cached inheritance lists)
            format!("{}|{}|ent={}", join(names(r.defs.iter().copied())), r.fits(&Symbol::from(probe.as_str())), r.entity_type.def_name())
        }
        Query::Relationship(tags, rel, term, target) => {
            let mut rec = Dict::new();
            for (t, r) in tags {
                rec.insert(t.clone(), match r {
                    Some(id) => Value::make_ref(id),
                    None => Value::Marker,
                });
            }
            let w = world();
            let resolve = |r: &Ref| w.get(&r.value).cloned();
            ns.has_relationship(&rec, &Symbol::from(rel.as_str()), &term.as_ref().map(|t| Symbol::from(t.as_str())), &target.as_ref().map(|t| Ref::from(t.as_str())), &resolve).to_string()
        }
        Query::Implementation(s) => join(names(ns.implementation(&Symbol::from(s.as_str())))),
        Query::Tags(s) => join(names(ns.tags(&Symbol::from(s.as_str())))),
    }
}

/// What the graph oracle says, for the query kinds it covers.
pub fn oracle(g: &Graph, q: &Query) -> Option<String> {
    Some(match q {
        Query::Supertypes(s) => {
            // length: one entry per defined name in the `is` list, duplicates included
            let n = g.is.get(s).map_or(0, |l| l.iter().filter(|x| g.defined(x)).count());
            format!("{}#{}", n, join(g.supertypes(s)))
        }
        Query::AllSupertypes(s) => join(g.all_supertypes(s)),
        Query::Inheritance(s) => {
            let i = g.inheritance(s);
            format!("{}#{}", i.len(), join(i))
        }
        Query::Fits(a, b) => g.fits(a, b).to_string(),
        Query::Reflect(tags, probe) => {
            let r = g.reflect(tags);
            let fits = r.iter().any(|d| g.fits(d, probe));
            // entity type: none when no reflected def fits `entity`; the single most specific one when there is exactly
            // one; otherwise the graph does not determine it ('*': compared only against the cold namespace)
            let ent = if !g.defined("entity") {
                String::new()
            } else {
                let ents: Vec<&String> = r.iter().filter(|d| g.fits(d, "entity")).collect();
                let specific: Vec<&&String> = ents.iter().filter(|d| !ents.iter().any(|o| o != *d && g.inheritance(o).contains(**d))).collect();
                if ents.is_empty() {
                    String::new()
                } else if specific.len() == 1 {
                    (**specific[0]).clone()
                } else {
                    "*".to_string()
                }
            };
            format!("{}|{}|ent={}", join(r), fits, ent)
        }
        _ => return None,
    })
}

fn gen_query(rng: &mut Rng, keys: &[String], all: &[String]) -> Query {
    let k = |rng: &mut Rng| keys[rng.below(keys.len())].clone();
    match rng.below(16) {
        0..=2 => Query::Supertypes(k(rng)),
        3 | 4 => Query::AllSupertypes(k(rng)),
        5..=8 => Query::Inheritance(k(rng)),
        9 | 10 => Query::Fits(k(rng), if rng.coin() { k(rng) } else { all[rng.below(all.len())].clone() }),
        11 | 12 => {
            let mut tags: Vec<(String, bool)> = (0..1 + rng.below(4)).map(|_| (k(rng), rng.chance(3, 4))).collect();
            // conjunct parts as tags
            let c = k(rng);
            if c.contains('-') {
                tags = c.split('-').map(|p| (p.to_string(), true)).collect();
            }
            if rng.coin() {
                tags.push(("id".to_string(), false));
            }
            tags.sort();
            tags.dedup_by(|a, b| a.0 == b.0);
            Query::Reflect(tags, k(rng))
        }
        13 => Query::Relationship(
            vec![("siteRef".into(), Some("s".into())), ("equipRef".into(), Some("t".into())), ("id".into(), Some("r".into())), (k(rng), None)],
            rng.pick::<&str>(&["containedBy", "contains", "siteRef", "inputs"]).to_string(),
            if rng.coin() { Some(k(rng)) } else { None },
            if rng.coin() { Some(rng.pick::<&str>(&["r", "s", "t", "x"]).to_string()) } else { None },
        ),
        14 => Query::Implementation(k(rng)),
        _ => Query::Tags(k(rng)),
    }
}

thread_local! {
    static YRNG: RefCell<Rng> = RefCell::new(Rng::new(1));
}
static YIELDS: AtomicU64 = AtomicU64::new(0);

fn yield_fn(_site: usize) {
    YIELDS.fetch_add(1, Ordering::Relaxed);
    let r = YRNG.with(|r| r.borrow_mut().below(16));
    match r {
        0..=6 => {}
        7..=10 => std::thread::yield_now(),
        11..=13 => {
            let n = YRNG.with(|r| r.borrow_mut().below(3000));
            for _ in 0..n {
                std::hint::spin_loop();
            }
        }
        _ => {
            if !cfg!(miri) {
                std::thread::sleep(Duration::from_micros(40))
            } else {
                std::thread::yield_now()
            }
        }
    }
}

#[derive(Default)]
struct TrialOutcome {
    wrong: Vec<(Query, String, String, String)>,
    panics: Vec<String>,
    events: Vec<hooks::CacheEvent>,
    thread_of_event: Vec<usize>,
    deadlock: Option<String>,
    answers: u64,
    /// (query, answer) in execution order, per thread
    given: Vec<(String, String)>,
}

fn thread_states() -> Vec<(String, char, u64)> {
    // (tid, state, utime+stime) of every thread of this process
    let mut out = Vec::new();
    if let Ok(rd) = std::fs::read_dir("/proc/self/task") {
        for e in rd.flatten() {
            let tid = e.file_name().to_string_lossy().to_string();
            if let Ok(s) = std::fs::read_to_string(e.path().join("stat")) {
                if let Some(p) = s.rfind(')') {
                    let f: Vec<&str> = s[p + 2..].split(' ').collect();
                    let state = f.first().and_then(|x| x.chars().next()).unwrap_or('?');
                    let cpu = f.get(11).and_then(|x| x.parse::<u64>().ok()).unwrap_or(0) + f.get(12).and_then(|x| x.parse::<u64>().ok()).unwrap_or(0);
                    out.push((tid, state, cpu));
                }
            }
        }
    }
    out
}

/// One trial: `nthreads` threads run their scripts against one cold namespace.
fn run_trial(grid: Grid, g: &Graph, scripts: Vec<Vec<Query>>, expected_cold: &HashMap<String, String>, seed: u64, stall_limit: Duration, widen: bool) -> TrialOutcome {
    let nsh = leak_ns(grid);
    let ns = nsh.get();
    let nthreads = scripts.len();
    let barrier = Arc::new(Barrier::new(nthreads));
    let progress = Arc::new(AtomicU64::new(0));
    let done = Arc::new(AtomicU64::new(0));
    let abandon = Arc::new(AtomicBool::new(false));
    hooks::set_recording(true);
    hooks::set_yield_fn(if widen { Some(yield_fn) } else { None });
    let mut handles = Vec::new();
    for (ti, script) in scripts.into_iter().enumerate() {
        let barrier = barrier.clone();
        let progress = progress.clone();
        let done = done.clone();
        let g = g.clone();
        let expected_cold = expected_cold.clone();
        handles.push(std::thread::spawn(move || {
            YRNG.with(|r| *r.borrow_mut() = Rng::new(crate::prng::mix(&[seed, ti as u64])));
            let _ = hooks::take_events();
            let mut wrong = Vec::new();
            let mut panics = Vec::new();
            let mut answers = 0u64;
            let mut given: Vec<(String, String)> = Vec::new();
            barrier.wait();
            for q in &script {
                match catch_unwind(AssertUnwindSafe(|| answer(ns, q))) {
                    Ok(a) => {
                        answers += 1;
                        let key = format!("{q:?}");
                        given.push((key.clone(), a.clone()));
                        if let Some(o) = oracle(&g, q) {
                            let same = match o.strip_suffix("|ent=*") {
                                Some(head) => a.rsplit_once("|ent=").map_or(false, |(h, _)| h == head),
                                None => o == a,
                            };
                            if !same {
                                wrong.push((q.clone(), a.clone(), o, "graph oracle".to_string()));
                            }
                        }
                        if let Some(c) = expected_cold.get(&key) {
                            if *c != a {
                                wrong.push((q.clone(), a, c.clone(), "cold single-threaded namespace".to_string()));
                            }
                        }
                    }
                    Err(e) => {
                        let msg = e.downcast_ref::<String>().cloned().or_else(|| e.downcast_ref::<&str>().map(|s| s.to_string())).unwrap_or_else(|| "panic".into());
                        panics.push(format!("{q:?}: {msg}"));
                    }
                }
                progress.fetch_add(1, Ordering::Relaxed);
            }
            done.fetch_add(1, Ordering::Relaxed);
            (wrong, panics, hooks::take_events(), answers, given)
        }));
    }
    // deadlock detector: no progress for `stall_limit` AND every worker asleep with zero CPU delta
    let mut out = TrialOutcome::default();
    let mut last = 0u64;
    let mut last_change = Instant::now();
    let mut last_cpu: HashMap<String, u64> = HashMap::new();
    loop {
        if done.load(Ordering::Relaxed) as usize == nthreads {
            break;
        }
        std::thread::sleep(Duration::from_micros(if widen { 1000 } else { 100 }));
        let p = progress.load(Ordering::Relaxed);
        if p != last {
            last = p;
            last_change = Instant::now();
            continue;
        }
        if last_change.elapsed() > stall_limit {
            // Under Miri all program threads are simulated on one OS thread - the one this detector runs on - so the
            // process's task list says nothing about them, and one query can take minutes. Miri detects a deadlock of
            // the evaluated program itself and ends the run with an error (reported as a worker death).
            if cfg!(miri) {
                last_change = Instant::now();
                continue;
            }
            let st1 = thread_states();
            std::thread::sleep(Duration::from_millis(300));
            let st2 = thread_states();
            let me = format!("{}", unsafe { libc_gettid() });
            let mut all_asleep = true;
            for (tid, state, cpu) in &st2 {
                if *tid == me {
                    continue;
                }
                let before = st1.iter().find(|(t, _, _)| t == tid).map(|(_, _, c)| *c).unwrap_or(*cpu);
                if *state == 'R' || *cpu != before {
                    all_asleep = false;
                }
                last_cpu.insert(tid.clone(), *cpu);
            }
            if all_asleep && progress.load(Ordering::Relaxed) == last {
                out.deadlock = Some(format!("no query completed for {:?}; {} of {} threads finished; all remaining threads asleep with no CPU use: {:?}", stall_limit, done.load(Ordering::Relaxed), nthreads, st2));
                abandon.store(true, Ordering::Relaxed);
                break;
            }
            last_change = Instant::now(); // busy: keep waiting (the outer watchdog decides -> inconclusive)
        }
    }
    if out.deadlock.is_some() {
        // the stuck threads cannot be joined; the process will exit after reporting
        hooks::set_yield_fn(None);
        hooks::set_recording(false);
        return out;
    }
    for (ti, h) in handles.into_iter().enumerate() {
        match h.join() {
            Ok((wrong, panics, events, answers, given)) => {
                out.given.extend(given);
                out.wrong.extend(wrong);
                out.panics.extend(panics);
                out.answers += answers;
                for e in events {
                    out.events.push(e);
                    out.thread_of_event.push(ti);
                }
            }
            Err(_) => out.panics.push("thread panicked outside a query".into()),
        }
    }
    hooks::set_yield_fn(None);
    hooks::set_recording(false);
    unsafe { reclaim_ns(nsh) };
    out
}

unsafe fn libc_gettid() -> i64 {
    // /proc/thread-self gives the tid without libc
    std::fs::read_link("/proc/thread-self").ok().and_then(|p| p.file_name().map(|f| f.to_string_lossy().parse::<i64>().unwrap_or(0))).unwrap_or(0)
}

/// Evidence from the event log: contended misses, lost races, interleaving fingerprint.
fn analyse(out: &TrialOutcome) -> (u64, u64, u64, u64) {
    let mut idx: Vec<usize> = (0..out.events.len()).collect();
    idx.sort_by_key(|i| out.events[*i].stamp);
    let mut per_key: BTreeMap<(u8, String), Vec<(usize, u8)>> = BTreeMap::new();
    for i in idx {
        let e = &out.events[i];
        per_key.entry((e.cache, e.symbol.clone())).or_default().push((out.thread_of_event[i], e.kind));
    }
    let mut contended = 0u64;
    let mut lost = 0u64;
    let mut double_insert = 0u64;
    let mut fp_words: Vec<u64> = Vec::new();
    for ((cache, sym), seq) in &per_key {
        let mut misses_before_insert = 0;
        let mut inserted = 0;
        let mut rename: HashMap<usize, u64> = HashMap::new();
        let mut w = vec![*cache as u64, crate::prng::hash_str(sym)];
        for (t, k) in seq {
            let n = rename.len() as u64;
            let tn = *rename.entry(*t).or_insert(n);
            w.push(tn * 8 + *k as u64);
            match *k {
                hooks::EV_MISS if inserted == 0 => misses_before_insert += 1,
                hooks::EV_INSERTED => inserted += 1,
                hooks::EV_LOST_RACE => lost += 1,
                _ => {}
            }
        }
        if misses_before_insert >= 2 {
            contended += 1;
        }
        if inserted >= 2 {
            double_insert += 1;
        }
        fp_words.push(crate::prng::mix(&w));
    }
    (contended, lost, double_insert, crate::prng::mix(&fp_words))
}

pub fn run(ctx: &mut Ctx) {
    let real = if cfg!(miri) { None } else { crate::mon_c13::defs_grid() };
    let real_graph = real.as_ref().map(graph_of);
    // ---- history: random permutations of one script on fresh namespaces, single-threaded ------------
    let n = ctx.n(150, 4_000);
    for i in 0..n {
        if !ctx.begin("history", i) {
            continue;
        }
        let mut rng = ctx.case_rng("history", i);
        let (grid, all) = random_taxonomy(&mut rng);
        let g = graph_of(&grid);
        let mut keys: Vec<String> = (0..4 + rng.below(4)).map(|_| all[rng.below(all.len())].clone()).collect();
        // names that are no defs are cached too: keep one or two among the hot keys
        if rng.chance(2, 3) {
            keys.push(format!("zzNoDef{}", rng.below(2)));
        }
        let mut script: Vec<Query> = (0..24).map(|_| gen_query(&mut rng, &keys, &all)).collect();
        let mut first: HashMap<String, String> = HashMap::new();
        for perm in 0..4 {
            rng.shuffle(&mut script);
            // one thread, same answer monitor and the same deadlock detector (a cache that takes a lock it already
            // holds hangs a single thread just as well)
            let out = run_trial(grid.clone(), &g, vec![script.clone()], &first, crate::prng::mix(&[ctx.seed, i, perm]), Duration::from_secs(if cfg!(miri) { 120 } else { 5 }), false);
            for q in &script {
                ctx.eval("history:query", crate::prng::mix(&[crate::prng::hash_str(&format!("{q:?}")), i, perm]), true);
            }
            if let Some(d) = out.deadlock {
                ctx.violation("history:deadlock", &format!("a single thread issuing queries sequentially stopped making progress: {d}"), json!({"keys": keys}));
                ctx.finish();
                std::process::exit(0);
            }
            for p in out.panics.iter().take(2) {
                ctx.violation("history:panic", p, json!({"permutation": perm}));
            }
            for (q, a, o, which) in out.wrong.iter().take(3) {
                let kind = format!("{q:?}");
                let head = kind.split('(').next().unwrap_or("").to_string();
                if which == "graph oracle" {
                    ctx.violation(&format!("history:wrong-answer:{head}"), &format!("{kind} answered {}, the graph says {}", truncate(a, 200), truncate(o, 200)), json!({"permutation": perm}));
                } else {
                    ctx.violation(&format!("history:order-dependent:{head}"), &format!("{kind} answered {} as an early query and {} after a different history", truncate(o, 200), truncate(a, 200)), json!({"permutation": perm}));
                }
            }
            for (k, a) in out.given {
                first.entry(k).or_insert(a);
            }
        }
    }
    // ---- long histories over the real defs: every symbol (and unknown ones) queried in random order on ONE
    //      namespace, so the caches fill up completely; answers must still be the graph's -----------------
    if let (Some(grid), Some(g)) = (real.as_ref(), real_graph.as_ref()) {
        let n = ctx.n(1, 6);
        for i in 0..n {
            if !ctx.begin("long-history", i) {
                continue;
            }
            let mut rng = ctx.case_rng("long-history", i);
            let mut all: Vec<String> = g.is.keys().cloned().collect();
            all.extend(["zzUnknown0".to_string(), "zzUnknown1".to_string(), "unknown-conjunct".to_string()]);
            let mut script: Vec<Query> = Vec::new();
            // first pass touches every symbol once (random query kind), second pass re-asks a random half, unknown symbols interleaved
            for round in 0..2 {
                let mut order = all.clone();
                rng.shuffle(&mut order);
                for s in order.iter().take(if round == 0 { order.len() } else { order.len() / 2 }) {
                    let q = match rng.below(6) {
                        0 => Query::Supertypes(s.clone()),
                        1 => Query::AllSupertypes(s.clone()),
                        2 | 3 => Query::Inheritance(s.clone()),
                        4 => Query::Fits(s.clone(), all[rng.below(all.len())].clone()),
                        _ => Query::Reflect(vec![(s.clone(), true)], all[rng.below(all.len())].clone()),
                    };
                    script.push(q);
                    if rng.chance(1, 20) {
                        let u = format!("zzUnknown{}", rng.below(2));
                        script.push(if rng.coin() { Query::Supertypes(u) } else { Query::AllSupertypes(u) });
                    }
                }
            }
            let nq = script.len() as u64;
            let out = run_trial(grid.clone(), g, vec![script], &HashMap::new(), crate::prng::mix(&[ctx.seed, ctx.shard, i, 77]), Duration::from_secs(20), false);
            ctx.eval("long-history", crate::prng::mix(&[ctx.seed, ctx.shard, i]), true);
            ctx.evaluations += nq;
            ctx.note_max("max_queries_in_one_history", nq as f64);
            if let Some(d) = out.deadlock {
                ctx.violation("long-history:deadlock", &d, json!({}));
                ctx.finish();
                std::process::exit(0);
            }
            for p in out.panics.iter().take(3) {
                ctx.violation("long-history:panic", &format!("after a long history: {p}"), json!({"queries": nq}));
            }
            for (q, a, o, _) in out.wrong.iter().take(3) {
                let kind = format!("{q:?}");
                ctx.violation(&format!("long-history:wrong-answer:{}", kind.split('(').next().unwrap_or("")), &format!("after a long history {kind} answered {} but the graph says {}", truncate(a, 200), truncate(o, 200)), json!({"queries": nq}));
            }
        }
    }
    // ---- schedule: concurrent trials on cold namespaces ---------------------------------------------
    let n = ctx.n(20, 2_000);
    let mut fingerprints: std::collections::HashSet<u64> = std::collections::HashSet::new();
    let stall = Duration::from_secs(if cfg!(miri) { 120 } else { 5 });
    for i in 0..n {
        if !ctx.begin("schedule", i) {
            continue;
        }
        let mut rng = ctx.case_rng("schedule", i);
        let use_real = real.is_some() && rng.chance(1, 4);
        let (grid, all, g) = if use_real {
            let g = real_graph.clone().unwrap();
            (real.clone().unwrap(), g.is.keys().cloned().collect::<Vec<_>>(), g)
        } else {
            let (grid, all) = random_taxonomy(&mut rng);
            let g = graph_of(&grid);
            (grid, all, g)
        };
        let nthreads = if cfg!(miri) { 2 + rng.below(2) } else { *rng.pick(&[2usize, 2, 3, 4, 4, 8, 8, 16]) };
        let nkeys = 1 + rng.below(4);
        let mut keys: Vec<String> = (0..nkeys).map(|_| all[rng.below(all.len())].clone()).collect();
        if rng.chance(1, 2) {
            keys.push(format!("zzNoDef{}", rng.below(2)));
        }
        let qn = if cfg!(miri) { 4 } else { 6 + rng.below(20) };
        let scripts: Vec<Vec<Query>> = (0..nthreads).map(|_| (0..qn).map(|_| gen_query(&mut rng, &keys, &all)).collect()).collect();
        // cold single-threaded answers for every distinct query (its own fresh namespace)
        let cold_h = leak_ns(grid.clone());
        let cold_ns = cold_h.get();
        let mut cold: HashMap<String, String> = HashMap::new();
        for s in &scripts {
            for q in s {
                let key = format!("{q:?}");
                if !cold.contains_key(&key) {
                    if let Ok(a) = crate::util::catch(|| answer(cold_ns, q)) {
                        cold.insert(key, a);
                    }
                }
            }
        }
        unsafe { reclaim_ns(cold_h) };
        let out = run_trial(grid, &g, scripts, &cold, crate::prng::mix(&[ctx.seed, ctx.shard, i]), stall, true);
        ctx.eval(&format!("schedule:threads{}", nthreads), crate::prng::mix(&[i, ctx.shard, nthreads as u64]), true);
        ctx.evaluations += out.answers;
        ctx.note_add("concurrent_answers_checked", out.answers);
        if let Some(d) = out.deadlock {
            ctx.violation("schedule:deadlock", &d, json!({"threads": nthreads, "keys": keys}));
            ctx.finish();
            // stuck threads cannot be joined: leave the process
            std::process::exit(0);
        }
        for (q, a, o, which) in out.wrong.iter().take(3) {
            let kind = format!("{q:?}");
            ctx.violation(&format!("schedule:wrong-answer:{}", kind.split('(').next().unwrap_or("")), &format!("under {nthreads} threads {kind} answered {} but the {which} says {}", truncate(a, 200), truncate(o, 200)), json!({"threads": nthreads, "keys": keys}));
        }
        for p in out.panics.iter().take(3) {
            ctx.violation("schedule:panic", p, json!({"threads": nthreads, "keys": keys}));
        }
        let (contended, lost, double_insert, fp) = analyse(&out);
        ctx.note_add("cache_events_logged", out.events.len() as u64);
        ctx.note_add("contended_misses", contended);
        ctx.note_add("lost_race_events", lost);
        ctx.note_add("keys_inserted_twice", double_insert);
        if contended > 0 {
            ctx.stratum("schedule:trial-with-contended-miss");
        }
        if lost > 0 {
            ctx.stratum("schedule:trial-with-lost-race");
        }
        fingerprints.insert(fp);
        if ctx.wants_sample("schedule") && contended > 0 {
            let mut idx: Vec<usize> = (0..out.events.len()).collect();
            idx.sort_by_key(|k| out.events[*k].stamp);
            let trace: Vec<String> = idx.iter().take(24).map(|k| format!("t{} {} {} {}", out.thread_of_event[*k], ["supertypes", "inheritance"][out.events[*k].cache as usize], ["hit", "miss", "computed", "lost-race", "inserted"][out.events[*k].kind as usize], out.events[*k].symbol)).collect();
            ctx.sample("schedule", json!({"threads": nthreads, "keys": keys, "first_events": trace}));
        }
    }
    ctx.note_add("distinct_interleaving_fingerprints", fingerprints.len() as u64);
    ctx.note_add("yield_points_hit", YIELDS.load(Ordering::Relaxed));
}
