//! C01 — Zinc encode -> decode returns the original value (strict model equality).

use crate::bridge::{observe, to_value_with};
use crate::ctx::{truncate, Ctx};
use crate::gen::{gen_scalar_of_kind, gen_value, strata_of};
use crate::model::{diff, MVal};
use crate::shrink::{shape, shrink};
use crate::util::{panic_sig, with_fuel};
use libhaystack::encoding::zinc::decode::from_str;
use libhaystack::encoding::zinc::encode::{to_zinc_string, ToZinc};
use libhaystack::val::Value;
use serde_json::json;

pub struct RtFail {
    pub class: String,
    pub detail: String,
    pub text: Option<String>,
}

/// One Zinc round trip of a model value. Err = the property is refuted for this value.
pub fn zinc_roundtrip(m: &MVal, bits: u64) -> Result<String, RtFail> {
    let v = to_value_with(m, bits);
    let enc = with_fuel(u64::MAX, || to_zinc_string(&v));
    let text = match enc.result {
        Err(p) => return Err(RtFail { class: panic_sig(&p), detail: format!("encoder panicked: {} at {}:{}", p.msg, p.file, p.line), text: None }),
        Ok(Err(e)) => return Err(RtFail { class: "encode-err".into(), detail: format!("encoder returned error: {e}"), text: None }),
        Ok(Ok(t)) => t,
    };
    // the same encoding streamed into a sink that takes a few bytes per write(): the text must not depend on the sink
    if text.len() < 4096 {
        let chunk = 1 + (bits as usize ^ text.len()) % 5;
        let streamed = crate::util::catch(|| {
            let mut w = crate::readers::ShortWriter::new(chunk);
            v.to_zinc(&mut w).map(|_| w.out)
        });
        match streamed {
            Ok(Ok(bytes)) if bytes == text.as_bytes() => {}
            Ok(Ok(bytes)) => return Err(RtFail { class: "writer-text-differs".into(), detail: format!("to_zinc into a writer taking {chunk} byte(s) per write gave {:?}", truncate(&String::from_utf8_lossy(&bytes), 300)), text: Some(text) }),
            Ok(Err(e)) => return Err(RtFail { class: "writer-encode-err".into(), detail: format!("to_zinc into a short-write sink failed: {e}"), text: Some(text) }),
            Err(p) => return Err(RtFail { class: panic_sig(&p), detail: format!("to_zinc into a short-write sink panicked: {}", p.msg), text: Some(text) }),
        }
    }
    let fuel = 64 * text.len() as u64 + 4096;
    let dec = with_fuel(fuel, || from_str(&text));
    let back = match dec.result {
        Err(p) if p.fuel_site.is_some() => {
            return Err(RtFail { class: "decode-hang".into(), detail: format!("decoder exceeded {fuel} lexer steps on its own encoder's output"), text: Some(text) })
        }
        Err(p) => return Err(RtFail { class: panic_sig(&p), detail: format!("decoder panicked: {} at {}:{}", p.msg, p.file, p.line), text: Some(text) }),
        Ok(Err(e)) => return Err(RtFail { class: "decode-err".into(), detail: format!("decoder rejected encoder output: {e}"), text: Some(text) }),
        Ok(Ok(b)) => b,
    };
    let got = observe(&back);
    // the reader entry point must give the same value: decoded from a source that hands out a few bytes at a time and
    // answers Interrupted on every other call (one case in four)
    if (bits ^ text.len() as u64) % 4 == 0 && text.len() < 4096 {
        let via_reader = crate::util::catch(|| {
            let mut r = crate::readers::HostileReader::new(text.as_bytes(), crate::readers::Chunking::Random(bits ^ 0x5151), true, None);
            libhaystack::encoding::zinc::decode::parser::Parser::make(&mut r).and_then(|mut p| p.parse_value()).map_err(|e| e.to_string())
        });
        match via_reader {
            Ok(Ok(v)) if observe(&v) == got => {}
            Ok(Ok(v)) => return Err(RtFail { class: "reader-decodes-differently".into(), detail: format!("Parser::make(reader).parse_value gives {}", truncate(&observe(&v).show(), 300)), text: Some(text) }),
            Ok(Err(e)) => return Err(RtFail { class: "reader-decode-err".into(), detail: format!("decoding the encoder's text from a reader (short reads, Interrupted) fails: {e}"), text: Some(text) }),
            Err(p) => return Err(RtFail { class: panic_sig(&p), detail: format!("decoding from a reader panicked: {}", p.msg), text: Some(text) }),
        }
    }
    match diff(m, &got) {
        None => Ok(text),
        Some(d) => Err(RtFail { class: "mismatch".into(), detail: d, text: Some(text) }),
    }
}

fn typed_text(v: &Value) -> Option<Result<String, String>> {
    let r = match v {
        Value::Number(x) => x.to_zinc_string(),
        Value::Str(x) => x.to_zinc_string(),
        Value::Uri(x) => x.to_zinc_string(),
        Value::Ref(x) => x.to_zinc_string(),
        Value::Symbol(x) => x.to_zinc_string(),
        Value::Date(x) => x.to_zinc_string(),
        Value::Time(x) => x.to_zinc_string(),
        Value::DateTime(x) => x.to_zinc_string(),
        Value::Coord(x) => x.to_zinc_string(),
        Value::XStr(x) => x.to_zinc_string(),
        Value::Bool(x) => x.to_zinc_string(),
        Value::List(x) => x.to_zinc_string(),
        Value::Dict(x) => x.to_zinc_string(),
        Value::Grid(x) => x.to_zinc_string(),
        _ => return None,
    };
    Some(r.map_err(|e| e.to_string()))
}

/// The one residual defect that is recorded rather than repaired (see known_findings.json):
/// Zinc has no spelling for "the only cell of this row is missing" other than `N`, which the
/// decoder reads back as a Null cell. Rewrites the expected value accordingly.
pub fn one_col_missing_as_null(m: &MVal) -> MVal {
    match m {
        MVal::List(l) => MVal::List(l.iter().map(one_col_missing_as_null).collect()),
        MVal::Dict(d) => MVal::Dict(d.iter().map(|(k, v)| (k.clone(), one_col_missing_as_null(v))).collect()),
        MVal::Grid(g) => {
            let fix = |d: &crate::model::MDict| -> crate::model::MDict { d.iter().map(|(k, v)| (k.clone(), one_col_missing_as_null(v))).collect() };
            let mut n = crate::model::MGrid {
                meta: fix(&g.meta),
                cols: g.cols.iter().map(|c| crate::model::MCol { name: c.name.clone(), meta: fix(&c.meta) }).collect(),
                rows: g.rows.iter().map(fix).collect(),
            };
            if n.cols.len() == 1 {
                let name = n.cols[0].name.clone();
                for r in n.rows.iter_mut() {
                    r.entry(name.clone()).or_insert(MVal::Null);
                }
            }
            MVal::Grid(Box::new(n))
        }
        other => other.clone(),
    }
}

pub const SIG_ONE_COL: &str = "zinc-roundtrip:one-column-grid:missing-cell-read-back-as-null-cell";

pub fn report(ctx: &mut Ctx, tag: &str, m: &MVal, bits: u64, first: RtFail) {
    // is the failure fully explained by the recorded one-column residual?
    if first.class == "mismatch" {
        let n = one_col_missing_as_null(m);
        if n != *m {
            if let Some(text) = &first.text {
                if let Ok(back) = from_str(text) {
                    if observe(&back) == n {
                        ctx.violation(
                            SIG_ONE_COL,
                            "a row of a one-column grid whose only cell is missing is written as N and read back as a Null cell",
                            json!({"value": truncate(&m.show(), 600), "zinc": truncate(text, 600), "detail": first.detail}),
                        );
                        return;
                    }
                }
            }
        }
    }
    if ctx.shrinks >= 40 {
        ctx.violation(&format!("{}:{}:unshrunk", tag, first.class), &first.detail, json!({"value": truncate(&m.show(), 1500), "zinc": first.text.map(|t| truncate(&t, 1500))}));
        return;
    }
    ctx.shrinks += 1;
    // shrink while the same failure class persists
    let class = first.class.clone();
    let min = shrink(m, &mut |c| matches!(zinc_roundtrip(c, bits), Err(f) if f.class == class));
    let f = zinc_roundtrip(&min, bits).err().unwrap_or(first);
    let sig = format!("{}:{}:{}", tag, f.class, shape(&min));
    ctx.violation(
        &sig,
        &format!("{} — {}", shape(&min), f.detail),
        json!({"value": truncate(&min.show(), 1500), "zinc": f.text.map(|t| truncate(&t, 1500)), "detail": f.detail, "original": truncate(&m.show(), 600)}),
    );
}

pub fn run(ctx: &mut Ctx) {
    let depth = if ctx.quick() { 4 } else { 6 };
    // stream "scalar": every kind in turn, typed ToZinc agrees with Value's
    let n = ctx.n(6_000, 100_000);
    for i in 0..n {
        if !ctx.begin("scalar", i) {
            continue;
        }
        let mut rng = ctx.case_rng("scalar", i);
        let m = gen_scalar_of_kind(&mut rng, (i % 15) as usize);
        let st = strata_of(&m);
        for s in &st {
            ctx.stratum(s);
        }
        ctx.eval(m.kind_name(), m.fp(), !matches!(m, MVal::Null | MVal::Marker | MVal::Na | MVal::Remove | MVal::Bool(_)));
        if ctx.wants_sample(m.kind_name()) {
            ctx.sample(m.kind_name(), json!(truncate(&m.show(), 300)));
        }
        match zinc_roundtrip(&m, 0) {
            Ok(text) => {
                let v = to_value_with(&m, 0);
                if let Some(t) = typed_text(&v) {
                    if t.as_deref().ok() != Some(text.as_str()) {
                        ctx.violation(
                            &format!("typed-tozinc-differs:{}", m.kind_name()),
                            "typed ToZinc text differs from Value::to_zinc text",
                            json!({"value": m.show(), "value_text": text, "typed_text": format!("{:?}", t)}),
                        );
                    }
                }
            }
            Err(f) => report(ctx, "zinc-roundtrip", &m, 0, f),
        }
    }
    // stream "value": nested values
    let n = ctx.n(14_000, 250_000);
    for i in 0..n {
        if !ctx.begin("value", i) {
            continue;
        }
        let mut rng = ctx.case_rng("value", i);
        let m = gen_value(&mut rng, depth);
        let bits = rng.next_u64();
        let st = strata_of(&m);
        for s in &st {
            ctx.stratum(s);
        }
        ctx.stratum(&format!("depth:{}", m.depth()));
        ctx.eval("value", m.fp(), m.size() > 1);
        if m.depth() >= 2 && ctx.wants_sample("nested") {
            ctx.sample("nested", json!(truncate(&m.show(), 400)));
        }
        if let Err(f) = zinc_roundtrip(&m, bits) {
            report(ctx, "zinc-roundtrip", &m, bits, f);
        }
    }
    // wide values: more than 128 siblings at one level
    let n = ctx.n(60, 1_000);
    for i in 0..n {
        if !ctx.begin("wide", i) {
            continue;
        }
        let mut rng = ctx.case_rng("wide", i);
        let m = crate::gen::gen_wide(&mut rng);
        ctx.eval("wide", m.fp(), true);
        if let Err(f) = zinc_roundtrip(&m, 0) {
            report(ctx, "zinc-roundtrip", &m, 0, f);
        }
    }
    // boundary offsets: a character that needs an escape or several bytes, at every byte offset up to 1100 and around
    // 2^11, 2^12, 2^13, 2^16 of a Str, a Ref display name, an XStr value, a Uri and a dict tag
    {
        let lens = crate::gen::boundary_lengths();
        for (li, n) in lens.iter().enumerate() {
            if (li as u64) % ctx.nshards != ctx.shard || (ctx.quick() && *n > 1100 && *n < 65000) {
                continue;
            }
            if !ctx.begin("boundary-offset", li as u64) {
                continue;
            }
            for c in crate::gen::BOUNDARY_CHARS {
                let m = crate::gen::boundary_value(*n, c);
                ctx.eval("boundary-offset", crate::prng::mix(&[*n as u64, c as u64]), true);
                if let Err(f) = zinc_roundtrip(&m, 0) {
                    report(ctx, "zinc-roundtrip", &m, 0, f);
                }
            }
        }
    }
    // deep chains: every depth up to the decoder's documented limit (127 nested containers; for Hayson a grid costs
    // three JSON levels of serde_json's 128, so grid chains stop at 42)
    if ctx.shard == 0 {
        let families: [(&str, &[u8]); 5] = [("list", &[0]), ("dict", &[1]), ("grid", &[2]), ("mixed", &[0, 1, 2]), ("meta", &[2, 3, 4, 1])];
        let mut idx = 0u64;
        for (fam, kinds) in families {
            for d in [1usize, 2, 3, 5, 8, 13, 21, 34, 55, 64, 89, 100, 120, 126, 126, 126, 126, 126, 126, 126, 127, 127, 127, 127, 127, 127, 127] {
                let i = idx;
                idx += 1;

                if !ctx.begin("deep-chain", i) {
                    continue;
                }
                let mut rng = ctx.case_rng("deep-chain", i);
                // at the deepest levels every kind of innermost value in turn, elsewhere a random one
                let m = if d >= 126 { crate::gen::deep_chain_with_leaf(&mut rng, d, kinds, (i % 7) as usize) } else { crate::gen::deep_chain(&mut rng, d, kinds) };
                ctx.eval(&format!("deep-chain:{fam}"), m.fp(), true);
                ctx.note_max("max_nesting_depth_round_tripped", d as f64);
                if let Err(f) = zinc_roundtrip(&m, 0) {
                    report(ctx, "zinc-roundtrip", &m, 0, f);
                }
            }
        }
    }
}
