//! C09 — the filter parser is total; evaluation of any parsed filter terminates, with any resolver.

use crate::ctx::{truncate, Ctx};
use crate::model::*;
use crate::mon_c07::{gen_record, value_pool, ChainResolver};
use crate::prng::Rng;
use crate::reffilter::*;
use crate::textgen::*;
use crate::util::{catch, panic_sig, site_name, with_fuel};
use libhaystack::defs::namespace::Namespace;
use libhaystack::filter::eval::EvalContext;
use libhaystack::filter::{Eval, Filter, Filtered};
use libhaystack::val::{Dict, Value};
use serde_json::json;
use std::cell::Cell;
use std::collections::HashMap;
use std::sync::OnceLock;

pub fn real_namespace() -> Option<&'static Namespace<'static>> {
    static NS: OnceLock<Option<&'static Namespace<'static>>> = OnceLock::new();
    *NS.get_or_init(|| {
        let text = std::fs::read_to_string("/repo/tests/defs/defs.zinc").ok()?;
        match libhaystack::encoding::zinc::decode::from_str(&text) {
            Ok(Value::Grid(g)) => Some(crate::mon_c13::leak_ns(g).get()),
            _ => None,
        }
    })
}

fn parse_monitored(ctx: &mut Ctx, text: &[u8], class: &str) -> Option<Filter> {
    let s = match std::str::from_utf8(text) {
        Ok(s) => s,
        Err(_) => {
            ctx.stratum("outcome:not-utf8");
            return None;
        }
    };
    let fuel = crate::mon_c03::fuel_for(s.len());
    let run = with_fuel(fuel, || Filter::try_from(s));
    let total: u64 = run.ticks.iter().sum();
    if !s.is_empty() {
        ctx.note_max("max_ticks_per_byte", total as f64 / s.len() as f64);
    }
    match run.result {
        Ok(Ok(f)) => {
            ctx.stratum("outcome:ok");
            Some(f)
        }
        Ok(Err(_)) => {
            ctx.stratum("outcome:err");
            None
        }
        Err(p) if p.fuel_site.is_some() => {
            let again = with_fuel(fuel.saturating_mul(1000), || Filter::try_from(s).is_ok());
            match again.result {
                Err(p2) if p2.fuel_site.is_some() => {
                    let site = site_name(p2.fuel_site.unwrap());
                    ctx.violation(&format!("hang:Filter::try_from:{site}"), &format!("the filter parser did not finish within {} lexer steps on a {}-byte input ({class})", fuel.saturating_mul(1000), s.len()), json!({"text": truncate(s, 1200), "class": class}));
                }
                Err(p2) => ctx.violation(&format!("parser-panic:{}", panic_sig(&p2)), &format!("Filter::try_from panicked: {} at {}:{}", p2.msg, p2.file, p2.line), json!({"text": truncate(s, 1200), "class": class})),
                Ok(_) => ctx.note_add("slow_but_terminating_cases", 1),
            }
            None
        }
        Err(p) => {
            ctx.violation(&format!("parser-panic:{}", panic_sig(&p)), &format!("Filter::try_from panicked: {} at {}:{} ({class})", p.msg, p.file, p.line), json!({"text": truncate(s, 1200), "class": class}));
            None
        }
    }
}

const RESOLVE_CAP: u64 = 4 * (5 + 1) + 16;

/// resolver over a cyclic world that panics (harness side) when asked more often than any
/// terminating evaluation can need
struct CappedResolver {
    inner: ChainResolver,
    cap: u64,
}

impl libhaystack::filter::PathResolver for CappedResolver {
    fn resolve_for(&self, root: &Dict, path: &libhaystack::filter::path::Path) -> Value {
        self.inner.resolve_for(root, path)
    }
    fn resolve(&self, path: &libhaystack::filter::path::Path) -> Value {
        self.inner.resolve(path)
    }
    fn resolve_ref(&self, r: &libhaystack::val::Ref) -> Option<Dict> {
        if self.inner.calls.get() > self.cap {
            panic!("HARNESS-CAP: resolve_ref called more than {} times in one evaluation", self.cap);
        }
        self.inner.resolve_ref(r)
    }
}

fn cyclic_world(rng: &mut Rng) -> HashMap<String, Dict> {
    // five records whose ref tags point at each other, cycles guaranteed
    let ids = ["r", "s", "t", "u", "v"];
    let tags = ["a", "b", "c", "site", "x1", "siteRef", "equipRef", "spaceRef", "id"];
    let mut w = HashMap::new();
    for (k, id) in ids.iter().enumerate() {
        let mut d = Dict::new();
        d.insert("id".into(), Value::make_ref(id));
        d.insert("site".into(), Value::Marker);
        d.insert("equip".into(), Value::Marker);
        for t in tags.iter().take(8) {
            match rng.below(3) {
                0 => {
                    d.insert(t.to_string(), Value::make_ref(ids[(k + 1 + rng.below(4)) % 5]));
                }
                1 => {
                    d.insert(t.to_string(), Value::make_ref(id)); // self loop
                }
                _ => {}
            }
        }
        w.insert(id.to_string(), d);
    }
    // records without an id tag, or whose id differs from the ref they are reached by
    match rng.below(4) {
        0 => {
            for d in w.values_mut() {
                d.remove("id");
            }
        }
        1 => {
            for (k, d) in w.iter_mut() {
                d.insert("id".into(), Value::make_ref(&format!("other-{k}")));
            }
        }
        _ => {}
    }
    // sometimes a ref on the chain resolves to an EMPTY record
    if rng.chance(1, 3) {
        w.insert(ids[rng.below(5)].to_string(), Dict::new());
    }
    w
}

fn eval_monitored(ctx: &mut Ctx, f: &Filter, text: &str, rng: &mut Rng) {
    let world = cyclic_world(rng);
    let mut subject = world[*rng.pick(&["r", "s", "t", "u", "v"])].clone();
    if subject.is_empty() {
        subject.insert("a".into(), Value::make_ref("r"));
        subject.insert("siteRef".into(), Value::make_ref("s"));
    }
    let res = CappedResolver { inner: ChainResolver { recs: world, calls: Cell::new(0) }, cap: RESOLVE_CAP };
    let ns = real_namespace();
    let r = catch(|| {
        let a = subject.filter(f);
        let b = match ns {
            Some(ns) => {
                let c = EvalContext::make(&subject, ns, &res);
                f.eval(&c)
            }
            None => false,
        };
        (a, b)
    });
    ctx.note_max("max_resolve_ref_calls_per_eval", res.inner.calls.get() as f64);
    match r {
        Ok(_) => ctx.stratum("eval:returned"),
        Err(p) if p.msg.starts_with("HARNESS-CAP") => {
            ctx.violation("eval-nontermination:resolve_ref-cap", &format!("evaluation asked the resolver more than {RESOLVE_CAP} times over a 5-record cyclic world: it is not following refs to a fixed point"), json!({"filter": truncate(text, 600)}));
        }
        Err(p) => ctx.violation(&format!("eval-panic:{}", panic_sig(&p)), &format!("evaluation panicked: {} at {}:{}", p.msg, p.file, p.line), json!({"filter": truncate(text, 600)})),
    }
}

pub fn run(ctx: &mut Ctx) {
    let pool = value_pool();
    let _ = gen_record(&mut Rng::new(1), &pool);
    // --- parenthesis ladders --------------------------------------------------------------------
    crate::util::on_thread_stack(ctx, |ctx: &mut Ctx| {
    let ladders: [(&str, &str, &str, &str); 8] = [
        ("ladder-paren", "(", "a", ")"),
        ("ladder-paren-and", "(a and ", "b", ")"),
        ("ladder-not-paren", "(not a or ", "b==1", ")"),
        // nesting interleaved with already closed sibling groups
        ("ladder-paren-sibling", "((a) and ", "b", ")"),
        ("ladder-paren-sibling2", "((a or (b)) and (c) and ", "d", " or (e))"),
        // flat chains: no nesting at all, depth = number of operators
        ("ladder-flat-and", "a and ", "b", ""),
        ("ladder-flat-or", "a or ", "b", ""),
        ("ladder-flat-mixed", "not a and b == 1 or ", "c", ""),
    ];
    for (stream, open, core, close) in ladders {
        if ctx.shard != 0 {
            break;
        }
        let mut idx = 0u64;
        for depth in LADDER_DEPTHS {
            for closed in [true, false] {
                let i = idx;
                idx += 1;
                if !ctx.begin(stream, i) {
                    continue;
                }
                let text = ladder(open, core, close, depth, closed);
                ctx.eval(&format!("{stream}:depth{depth}"), crate::prng::mix(&[crate::prng::hash_str(stream), depth as u64, closed as u64]), true);
                ctx.note_max("max_ladder_depth", depth as f64);
                if let Some(f) = parse_monitored(ctx, text.as_bytes(), stream) {
                    let mut rng = ctx.case_rng(stream, i);
                    eval_monitored(ctx, &f, &text, &mut rng);
                    // printing a deep filter must not crash either
                    if let Err(p) = catch(|| f.to_string().len()) {
                        ctx.violation(&format!("display-panic:{}", panic_sig(&p)), &p.msg, json!({"depth": depth}));
                    }
                }
            }
        }
    }
    // --- long runs of one byte between tokens -------------------------------------------------------------
    if ctx.shard == 0 {
        let bytes: Vec<u8> = vec![b' ', b'\t', b'\n', b'\r', b'a', b'1', b'_', b'-', b'>', b'=', b'!', b'"', b'@', b'^', 0x0c, 0x00];
        let lens: Vec<usize> = if ctx.quick() { vec![300, 5_000, 100_000] } else { vec![100, 450, 1_000, 5_000, 20_000, 100_000, 1_000_000] };
        let mut idx = 0u64;
        for b in &bytes {
            for len in &lens {
                let i = idx;
                idx += 1;
                if !ctx.begin("ladder-runs", i) {
                    continue;
                }
                let run: String = String::from_utf8_lossy(&vec![*b; *len]).to_string();
                ctx.eval(&format!("ladder-runs:len{len}"), crate::prng::mix(&[*b as u64, *len as u64, 9]), true);
                for doc in [format!("a{run}and b"), format!("{run}a"), format!("a =={run}1"), format!("a->{run}b"), format!("(a{run})")] {
                    let _ = parse_monitored(ctx, doc.as_bytes(), "ladder-runs");
                }
            }
        }
    }
    });
    // --- texts the parser quotes in its error messages, at every byte length of 1- to 4-byte characters ----
    if ctx.shard == ctx.nshards.saturating_sub(1) && ctx.begin("error-text", 0) {
        let max = if ctx.quick() { 140 } else { 700 };
        for ch in ["q", "\u{e9}", "\u{20ac}", "\u{1f600}"] {
            for offset in 0..4usize {
                let mut n = 1usize;
                while offset + n * ch.len() <= max {
                    let body = format!("{}{}", "Q".repeat(offset), ch.repeat(n));
                    n += 1;
                    ctx.eval("error-text", crate::prng::hash_str(&body), true);
                    for doc in [
                        format!("a == 1{body}"),
                        format!("a == 2021-01-01T00:00:00+01:00 {body}"),
                        format!("a == \"\\q{body}\""),
                        format!("a == \"\\u{body}\""),
                        format!("a == @{body} x"),
                        format!("a == ^{body}"),
                        format!("a == `{body}"),
                        format!("{body} == 1"),
                        format!("a->{body}"),
                        format!("a {body} b"),
                        format!("a == 2021-{body}"),
                        format!("a == 12:{body}"),
                        format!("^{body}"),
                        format!("{body}? @x"),
                    ] {
                        let _ = parse_monitored(ctx, doc.as_bytes(), "error-text");
                    }
                }
            }
        }
    }
    // --- every written UTC offset and digit runs of any length inside literals ---------------------------------------
    if ctx.shard == ctx.nshards.saturating_sub(1).min(1) && ctx.begin("offset-sweep", 0) {
        for hh in 0..=30u32 {
            for mm in [0u32, 1, 15, 30, 45, 59, 60, 61, 99] {
                for sign in ['+', '-'] {
                    ctx.eval("offset-sweep", crate::prng::mix(&[hh as u64, mm as u64, sign as u64]), true);
                    for doc in [
                        format!("ts == 2021-08-06T17:05:00{sign}{hh:02}:{mm:02} London"),
                        format!("ts == 2021-08-06T17:05:00{sign}{hh:02}:{mm:02}"),
                        format!("(ts < 2021-08-06T17:05:00.5{sign}{hh:02}:{mm:02} New_York) and a"),
                        format!("ts >= 2021-08-06T17:05:00{sign}{hh:02}{mm:02} UTC"),
                    ] {
                        let _ = parse_monitored(ctx, doc.as_bytes(), "offset-sweep");
                    }
                }
            }
        }
        for n in [1usize, 2, 9, 10, 11, 19, 20, 21, 39, 40, 308, 309, 310, 400, 1100, 5000] {
            let run = "9".repeat(n);
            let zeros = "0".repeat(n);
            ctx.eval("digit-runs", n as u64, true);
            for doc in [
                format!("x < 1e{run}"), format!("x >= 1e-{run}"), format!("x == 2.5E+{run}kW"), format!("x == 1e{zeros}1"), format!("x == {run}"), format!("x != -{run}.{run}"), format!("x == 0.{zeros}1"),
                format!("x == {run}-01-01"), format!("x == 2021-01-01T00:00:00.{run}Z"), format!("x == 12:00:00.{run}"), format!("x == 1e+_{run}"),
            ] {
                let _ = parse_monitored(ctx, doc.as_bytes(), "digit-runs");
            }
        }
    }
    // --- valid filters: the text, its prefixes, its mutants; evaluation of whatever parses ----------
    let n = ctx.n(3_000, 80_000);
    for i in 0..n {
        if !ctx.begin("valid", i) {
            continue;
        }
        let mut rng = ctx.case_rng("valid", i);
        let f = gen_or(&mut rng, 3, true);
        let text = print_filter(&mut rng, &f, true);
        ctx.eval("valid", crate::prng::hash_str(&text), true);
        if ctx.wants_sample("valid") && text.len() < 120 {
            ctx.sample("valid", json!(text));
        }
        if let Some(p) = parse_monitored(ctx, text.as_bytes(), "valid") {
            eval_monitored(ctx, &p, &text, &mut rng);
        }
        let bytes = text.as_bytes();
        let cuts: Vec<usize> = if !ctx.quick() && bytes.len() <= 400 { (0..bytes.len()).collect() } else { (0..24).map(|_| rng.below(bytes.len() + 1)).collect() };
        for c in cuts {
            ctx.eval("prefix", crate::prng::mix(&[crate::prng::hash_str(&text), c as u64]), true);
            if let Some(p) = parse_monitored(ctx, &bytes[..c], "prefix") {
                if rng.chance(1, 4) {
                    eval_monitored(ctx, &p, &text[..c.min(text.len())].to_string(), &mut rng);
                }
            }
        }
        for _ in 0..24 {
            let mut d = bytes.to_vec();
            let mut first = "none";
            for k in 0..1 + rng.below(3) {
                let (m, name) = mutate(&mut rng, &d, &FILTER_TOKENS);
                d = m;
                if k == 0 {
                    first = name;
                }
            }
            ctx.eval("mutant", crate::prng::hash_str(&String::from_utf8_lossy(&d)), true);
            ctx.stratum(&format!("mutation:{first}"));
            if let Some(p) = parse_monitored(ctx, &d, "mutant") {
                let t = String::from_utf8_lossy(&d).to_string();
                if ctx.wants_sample("accepted-mutant") && t.len() < 100 {
                    ctx.sample("accepted-mutant", json!(t));
                }
                eval_monitored(ctx, &p, &t, &mut rng);
            }
        }
    }
    // --- relationship terms against the real defs namespace over the cyclic world ----------------------
    let n = ctx.n(2_000, 40_000);
    for i in 0..n {
        if !ctx.begin("relation", i) {
            continue;
        }
        let mut rng = ctx.case_rng("relation", i);
        let rel = *rng.pick::<&str>(&["containedBy", "contains", "inputs", "outputs", "siteRef", "relationship", "tags", "is"]);
        let term = if rng.coin() { format!(" ^{}", rng.pick::<&str>(&["site", "equip", "space", "air", "marker"])) } else { String::new() };
        let target = if rng.chance(2, 3) { format!(" @{}", rng.pick::<&str>(&["r", "s", "t", "u", "v", "zz"])) } else { String::new() };
        let text = if rng.chance(1, 3) {
            format!("{} *== @{}", rng.pick::<&str>(&["a", "b", "c", "siteRef", "equipRef", "x1"]), rng.pick::<&str>(&["r", "s", "t", "u", "v", "zz"]))
        } else {
            format!("{rel}?{term}{target}")
        };
        ctx.eval("relation", crate::prng::mix(&[crate::prng::hash_str(&text), i]), true);
        if let Some(p) = parse_monitored(ctx, text.as_bytes(), "relation") {
            eval_monitored(ctx, &p, &text, &mut rng);
        }
    }
    // --- operators without operands, token soup, raw bytes ---------------------------------------------
    let n = ctx.n(8_000, 300_000);
    for i in 0..n {
        if !ctx.begin("soup", i) {
            continue;
        }
        let mut rng = ctx.case_rng("soup", i);
        let d = match rng.below(3) {
            0 => token_soup(&mut rng, &FILTER_TOKENS, 80).into_bytes(),
            1 => random_bytes(&mut rng, 80),
            _ => {
                let ops = ["and", "or", "not", "==", "!=", "<", ">=", "->", "*==", "(", ")", "a", "a?", "^a", "@a", "5"];
                let k = 1 + rng.below(6);
                (0..k).map(|_| *rng.pick::<&str>(&ops)).collect::<Vec<_>>().join(if rng.coin() { " " } else { "" }).into_bytes()
            }
        };
        ctx.eval("soup", crate::prng::hash_str(&String::from_utf8_lossy(&d)), d.len() > 1);
        if let Some(p) = parse_monitored(ctx, &d, "soup") {
            let t = String::from_utf8_lossy(&d).to_string();
            eval_monitored(ctx, &p, &t, &mut rng);
        }
    }
    if real_namespace().is_none() {
        ctx.violation("HARNESS:defs-namespace-unavailable", "could not build the namespace from /repo/tests/defs/defs.zinc", json!({}));
    }
    let _: Option<MVal> = None;
}
