#!/bin/sh
# Run the release build of the harness under valgrind memcheck: invalid reads/writes, use of uninitialised values
# (which AddressSanitizer does not see), invalid/double frees, definite and indirect leaks. Exit code 97 = memcheck
# reported something.
cd "$(dirname "$0")"
exec valgrind -q --error-exitcode=97 --leak-check=full --errors-for-leak-kinds=definite,indirect --show-leak-kinds=definite,indirect \
  --num-callers=12 --track-origins=no target/release/hsv "$@"
