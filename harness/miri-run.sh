#!/bin/sh
# Run the harness under Miri (UB + data-race interpreter). The shard number doubles as Miri's scheduler seed.
cd "$(dirname "$0")"
SEED=0
prev=""
for a in "$@"; do
  if [ "$prev" = "--shard" ]; then SEED="${a%%/*}"; fi
  prev="$a"
done
export MIRIFLAGS="-Zmiri-disable-isolation -Zmiri-seed=$SEED -Zmiri-preemption-rate=0.05 ${MIRI_EXTRA_FLAGS:-}"
export CARGO_NET_OFFLINE=true
exec cargo +nightly miri run --offline --quiet --target-dir target-miri -- "$@"
