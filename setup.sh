#!/bin/sh
# Build the monitoring harness offline against /repo's current working tree.
set -e
cd "$(dirname "$0")/harness"
export CARGO_NET_OFFLINE=true
[ -f Cargo.lock ] || cp /repo/Cargo.lock Cargo.lock
cargo build --offline --profile mon 2>&1 | tail -3
