"""Per-property configuration of the check driver: build flavours, shard counts, budgets,
evidence rule texts and assumptions. Case counts live in the monitors (ctx.n(quick, thorough));
`scale` multiplies them."""

CARGO = ["cargo", "build", "--offline"]

FLAVOURS = {
    # optimised, overflow checks + debug assertions on (see DESIGN §1 "Build profiles")
    "mon": {"cmd": CARGO + ["--profile", "mon"], "bin": "target/mon/hsv"},
    # plain release: smaller frames, what a user ships; used for stack-exhaustion ladders
    "release": {"cmd": CARGO + ["--release"], "bin": "target/release/hsv"},
    # stock dev profile: what `cargo build` gives a user
    "dev": {"cmd": CARGO, "bin": "target/debug/hsv"},
    "asan": {
        "cmd": ["cargo", "+nightly", "build", "--offline", "--profile", "mon", "--target", "x86_64-unknown-linux-gnu",
                "--target-dir", "target-asan"],
        "env": {"RUSTFLAGS": "-Zsanitizer=address -Cforce-frame-pointers=yes"},
        "bin": "target-asan/x86_64-unknown-linux-gnu/mon/hsv",
        "run_env": {"ASAN_OPTIONS": "detect_leaks=1:halt_on_error=1:abort_on_error=1:detect_stack_use_after_return=0:symbolize=1",
                    "LSAN_OPTIONS": "report_objects=1"},
    },
    "tsan": {
        "cmd": ["cargo", "+nightly", "build", "--offline", "--profile", "mon", "-Zbuild-std", "--target", "x86_64-unknown-linux-gnu",
                "--target-dir", "target-tsan"],
        "env": {"RUSTFLAGS": "-Zsanitizer=thread -Cforce-frame-pointers=yes"},
        "bin": "target-tsan/x86_64-unknown-linux-gnu/mon/hsv",
        "run_env": {"TSAN_OPTIONS": "halt_on_error=0:exitcode=66:report_signal_unsafe=0"},
    },
    # valgrind memcheck on the plain release build: invalid accesses, use of uninitialised values (not seen by ASan),
    # invalid frees, definite/indirect leaks; the "binary" is a wrapper script, exit code 97 = memcheck reported something
    "valgrind": {"cmd": CARGO + ["--release"], "bin": "valgrind-run.sh"},
    # Miri: undefined-behaviour and data-race interpreter; the "binary" is a wrapper around `cargo miri run`
    "miri": {"cmd": ["./miri-run.sh", "merge-fp"], "bin": "miri-run.sh"},
}


def phase(shards=16, scale=1.0, budget=60, flavour="mon", streams=None):
    return {"shards": shards, "scale": scale, "budget": budget, "flavour": flavour, "streams": streams}


def crash_signature(prop, crash):
    """Signature of a worker death: property-specific classification of the dying stream."""
    stream = crash["case"][0] if crash.get("case") else "?"
    err = crash.get("stderr", "")
    kind = "abort"
    if "stack overflow" in err or crash.get("rc") in (-11, -6) and "overflowed its stack" in err:
        kind = "stack-overflow"
    elif "AddressSanitizer" in err:
        kind = "asan"
    elif "LeakSanitizer" in err:
        kind = "lsan"
    elif "ThreadSanitizer" in err:
        kind = "tsan"
    elif crash.get("rc") == 97 or "definitely lost" in err or "Invalid read" in err or "Invalid write" in err or "uninitialised value" in err or "Invalid free" in err:
        kind = "memcheck"
    elif "Data race detected" in err:
        kind = "miri-data-race"
    elif "Undefined Behavior" in err:
        kind = "miri-ub"
    elif "memory leaked" in err or "leaked" in err and "miri" in crash.get("flavour", ""):
        kind = "miri-leak"
    return f"worker-death:{kind}:{stream}:{crash.get('flavour', 'mon')}"


LADDER_STREAMS = ["ladder-list", "ladder-dict", "ladder-grid", "ladder-list-in-dict", "ladder-gridmeta", "ladder-xstr-paren",
                  "ladder-json-list", "ladder-json-dict", "ladder-json-grid", "ladder-paren", "ladder-paren-and", "ladder-not-paren", "ladder-paren-sibling", "ladder-paren-sibling2", "ladder-runs", "ladder-flat", "ladder-flat-and", "ladder-flat-or", "ladder-flat-mixed"]

WELLFORMED = ("well-formed values only (C01 clause): identifier tag/column names, Ref/Symbol bodies over the id alphabet, "
              "Symbols start with a lower-case letter, XStr types [A-Z][A-Za-z0-9_]* except the literal 'C', Uris without "
              "control characters, database units, unit-less non-finite numbers, years 0000-9999, instants 1980-2060 in zones "
              "with an unambiguous city name (harness-computed from chrono_tz::TZ_VARIANTS), row keys are column names, >=1 column")

PROPS = {
    "C01": {
        "quick": [phase(16, 4.0, 900)],
        "thorough": [phase(16, 15.0, 3000)],
        "rule": ("cases = model values from the stratified generator (stream 'scalar': every scalar kind in turn; stream 'value': "
                 "lists/dicts/grids nested to depth 4 (quick) / 6 (thorough)); each is encoded with to_zinc_string, decoded with "
                 "zinc::decode::from_str and compared component-wise in the harness model (f64 by bits, Ref dis, zone name, "
                 "offset, Null vs missing cell). non-trivial = carries a payload (not Null/Marker/NA/Remove/Bool) or has more "
                 "than one node; distinct = distinct structural fingerprints, merged exactly across shards"),
        "assumptions": [WELLFORMED, "NaN payload bits are one class", "absent and empty grid/column meta are the same value",
                        "chrono-tz is the trusted zone database",
                        "'at any nesting depth' is read as: up to the depth the decoders document. Both decoders refuse deeper input instead of "
                        "exhausting the native stack (Zinc: 128 nested containers since fix 6d43cc0; serde_json: 128 JSON levels, i.e. 42 nested grids); "
                        "the deep-chain stream round-trips chains of every container kind at depths 1..127 (Hayson: as far as 127 JSON levels reach), "
                        "so a lowered limit is reported"],
        "require_strata": {"both": ["boundary-offset", "deep-chain:mixed", "deep-chain:grid", "grid:meta", "grid:colmeta", "grid:zero-rows", "grid:missing-cell", "grid:null-cell", "num:nan",
                                    "num:inf", "num:neg0", "num:subnormal", "num:unit", "str:astral", "str:control", "str:quote",
                                    "str:backslash", "str:dollar", "dt:zone", "ref:dis", "xstr", "coord", "symbol", "uri"]},
        "min_evals": {"quick": 50_000, "thorough": 1_000_000},
    },
    "C02": {
        "quick": [phase(16, 4.0, 900)],
        "thorough": [phase(16, 15.0, 3000)],
        "rule": ("cases = the C01 generator's model values; each is serialised through serde_json::to_string / to_vec / to_value and "
                 "deserialised through from_str / from_slice / from_value (all 9 combinations, round robin), and scalars and top-level "
                 "collections additionally through their own typed Serialize+Deserialize impl; compared component-wise in the harness "
                 "model with absent == empty grid meta. non-trivial / distinct as in C01"),
        "assumptions": [WELLFORMED, "NaN payload bits are one class", "absent and empty grid/column meta are the same value",
                        "'ver' is the reserved version tag of grid meta, not generated as a user meta tag",
                        "chrono-tz is the trusted zone database",
                        "nesting depth as in C01: serde_json refuses more than 128 JSON levels; the deep-chain stream covers every depth below that"],
        "require_strata": {"both": ["boundary-offset", "deep-chain:mixed", "deep-chain:grid", "grid:meta", "grid:colmeta", "grid:zero-rows", "grid:missing-cell", "grid:null-cell", "num:nan",
                                    "num:inf", "num:neg0", "num:subnormal", "num:unit", "num:int>=2^63", "str:astral", "str:control",
                                    "dt:zone", "ref:dis", "typed-impl", "entry:to_string x from_str".replace(" x ", "x"),
                                    "entry:to_valuexfrom_value", "entry:to_vecxfrom_slice", "entry:to_writerxfrom_reader", "entry:to_stringxfrom_reader"]},
        "min_evals": {"quick": 50_000, "thorough": 1_000_000},
    },
    "C10": {
        "quick": [phase(16, 4.0, 900)],
        "thorough": [phase(16, 8.0, 3000)],
        "crash_is_violation": True,
        "rule": ("cases = Values built directly through public fields/constructors with every String field arbitrary (empty, NUL, "
                 "non-ASCII first char, controls), NaN/INF with units, the default unit, out-of-range dates, leap-second times, "
                 "far-future/past timestamps in any bundled zone, grids whose rows and columns disagree / zero or duplicate columns / "
                 "odd ver, chains nested 1..64 deep, plus decoder images of foreign Hayson/Zinc documents and of both decoders on "
                 "generated values; each offered to to_zinc_string, ToZinc (typed), serde_json::to_string/to_value (Value and typed), "
                 "Display, to_string/format!, Dict::dis/dict_to_dis under catch_unwind; and streamed (ToZinc::to_zinc(writer), serde_json::to_writer) into "
                 "writers that take 1-7 bytes per write() and return Interrupted (the bytes received must be exactly the buffered "
                 "encoding) or fail for good at a chosen offset (an error must be returned, never success or a panic, and what was "
                 "written is a prefix of the buffered encoding). oracle = returned. distinct = distinct Debug renderings"),
        "assumptions": ["nesting depth <= 64 as the property bounds it", "a returned Err counts as 'returned'"],
        "require_strata": {"both": ["boundary-offset", "huge", "foreign:json-image", "foreign:zinc-image", "illformed:xstr", "illformed:grid", "illformed:dict",
                                    "illformed:dateTime", "illformed:ref", "deep:64", "cross-codec", "writer:short-writes", "writer:fails-midway"]},
        "min_evals": {"quick": 50_000, "thorough": 1_000_000},
    },
    "C12": {
        "quick": [phase(16, 8.0, 900)],
        "thorough": [phase(16, 200.0, 3000)],
        "rule": ("cases = (a) a fixed pool of ~110 near-colliding Values (+0/-0, same magnitude with different/absent/default unit, Refs "
                 "differing only in dis, dicts differing in one key or value, list prefixes, equal instants in 4 zones, the same payload "
                 "under different kinds, grids differing in meta/column meta/ver) and typed pools (Number, Coord, Ref, Dict, Grid, Column, "
                 "Str, Uri, Symbol, XStr, Bool, Date, Time, DateTime, Unit): ALL ordered pairs and ALL triples; (b) random pools of 8-17 "
                 "small values over a tiny alphabet (all pairs and triples); (c) pools from the well-formed generator. Laws: == reflexive/"
                 "symmetric/transitive, clone equal, a==b => hash equal, cmp antisymmetric/transitive, cmp==Equal <=> ==, partial_cmp "
                 "Some(o) => cmp==o, and HashSet/BTreeSet/sort/sort+dedup agree with the number of ==-classes. evaluations = pair and "
                 "triple evaluations; distinct = distinct pool members (structural fingerprint)"),
        "assumptions": ["NaN excluded as the property states", "bare Number sort()/BTreeSet behaviour is checked per unit only: Number's own partial order "
                        "has no answer across units, which the statement allows; mixed units are checked through Value"],
        "exhaustive": False,
        "require_strata": {"both": ["pool:value", "random:value", "generated:value"]},
        "min_evals": {"quick": 1_000_000, "thorough": 50_000_000},
    },
    "C19": {
        "quick": [phase(16, 4.0, 900)],
        "thorough": [phase(16, 12.0, 3000)],
        "rule": ("cases = generated values (every scalar kind in turn + nested values): exactly one of the 18 is_* predicates is true and it "
                 "is the model's kind; HaystackKind::from(&Value); every TryFrom<&Value> (17 target types) and every HaystackDict getter "
                 "(14) succeeds iff the kind matches and returns the stored payload (strict model equality), absent keys give None; the 15 typed "
                 "Hayson deserialisers (Marker .. Grid) fed the Hayson text of the value succeed iff the kind matches and return the payload; "
                 "has/missing/has_marker/has_na/has_remove/id/safe_id/ts; kind <-> u8 <-> name checked exhaustively over all 256 codes, all "
                 "names and ~110 near-miss names; Grid::make_from_dicts / _with_meta / Value::make_grid_from_dicts on random record lists: "
                 "rows kept in order, columns = sorted distinct union of keys, every row key is a column, Index and iteration agree"),
        "assumptions": ["kind table part is exhaustive; the value part is sampled"],
        "require_strata": {"both": ["kind-code", "kind-name", "kind-name-nearmiss", "grid-build", "grid", "dict", "list", "dateTime", "xstr", "typed-json-matrix"]},
        "min_evals": {"quick": 50_000, "thorough": 1_000_000},
    },
    "C04": {
        "quick": [phase(16, 4.0, 900)],
        "thorough": [phase(16, 15.0, 3000)],
        "rule": ("cases = the C01 generator's model values; for each, (A) the spec-derived reference writer (harness/src/refzinc.rs) produces a "
                 "random legal spelling (space after commas, trailing list comma, space- or comma-separated dict tags, k vs k:M, exponent "
                 "/ '_' (integer, fraction and exponent digits) / trailing-.0 number spellings, blanks before commas and inside brackets, \\uXXXX (either hex case) and \\b \\f escapes, LF vs CRLF, 'Z' vs 'Z UTC', numeric "
                 "zero offset, fraction trailing zeros, '<<' with or without newline, trailing blank line) and libhaystack must decode it to "
                 "the value; (B) libhaystack's own text must be accepted by the strict reference reader and denote the value. Reference "
                 "writer and reader are first checked against each other (a disagreement is a harness error = inconclusive)"),
        "assumptions": [WELLFORMED, "the Zinc grammar as transcribed in DESIGN Appendix A is the trusted base",
                        "Uri backslash escapes other than \\` \\\\ and \\uXXXX are not exercised (implementations disagree)",
                        "in a one-column grid a missing only-cell and N are the same denotation (counted as don't-care)",
                        "'$' in strings is always written escaped by the reference writer"],
        "require_strata": {"both": ["spelling:space-after-comma", "spelling:list-trailing-comma", "spelling:dict-comma-separator",
                                    "spelling:marker-spelled-M", "spelling:exponent", "spelling:digit-underscore", "spelling:exponent-digit-underscore", "spelling:mantissa-underscore", "spelling:integer-dot-zero",
                                    "spelling:esc-uXXXX", "spelling:esc-b", "spelling:esc-f", "spelling:crlf", "spelling:z-utc",
                                    "spelling:zero-offset-numeric", "spelling:fraction-trailing-zero", "spelling:nested-grid-no-newline",
                                    "spelling:trailing-blank-line", "spelling:uri-esc-uXXXX", "grid:meta", "grid:colmeta"]},
        "min_evals": {"quick": 50_000, "thorough": 1_000_000},
    },
    "C03": {
        "quick": [phase(16, 3.0, 900), phase(1, 1.0, 900, flavour="dev", streams=LADDER_STREAMS)],
        "thorough": [phase(16, 8.0, 3000),
                     phase(1, 1.0, 300, flavour="release", streams=LADDER_STREAMS),
                     phase(1, 1.0, 300, flavour="dev", streams=LADDER_STREAMS),
                     phase(8, 0.15, 900, flavour="asan", streams=["corpus", "grammar", "hayson", "bytes"])],
        "crash_is_violation": True,
        "rule": ("cases = input texts: nesting ladders of [ {a: << {a:[ grid-meta and X( (and JSON [ {\"a\": grid rows) at depths "
                 "1,10,100,127,128,129,1e3,1e4,1e5, closed and unclosed; slices of the shipped corpus files with their prefixes and "
                 "mutants; grammar-generated Zinc documents (reference writer, random spellings) with every prefix (thorough; 48 sampled "
                 "in quick) and 24 stacked-mutation mutants each (bit flip, byte replace/insert/delete/swap, range duplicate/delete, token "
                 "splice, truncate, comma insert/delete, terminator delete); every \\uXXXX escape (all 65,536 code units) in Str, Uri, Ref "
                 "dis, XStr, a grid cell and Hayson; texts the decoders quote in error messages (unknown unit / zone / kind / escape / tag ...) at every byte length up to 140 (quick) / 700 of 1-, 2-, 3- and 4-byte characters; long runs of one byte (to 1e6) and flat documents of up to 1e6 siblings; Hayson documents (library's and reference writer's spelling) with prefixes and mutants; random bytes, "
                 "printable noise and token soup. Each text goes through zinc::from_str, Parser::make(reader).parse_value and the lazy "
                 "parse_grid_iterator (drained) over a hostile reader (chunks of 1/2/7/random/whole, Interrupted on every other call, "
                 "sticky I/O error at a random offset), or serde_json::from_str/from_slice::<Value>. oracle = returned Ok or Err; a panic "
                 "(caught, with location), a worker death (attributed through the write-ahead progress marker) or more than 16*len+512 "
                 "decoder steps (hook H1: scanner/lexer reads and every loop iteration) confirmed with 1000x that fuel is a violation. distinct = distinct input texts"),
        "assumptions": ["'terminates' is restated as: finishes within 16*len+512 steps counted by hook H1 (Scanner::read, both Lexer::read, and every while/loop iteration of the Zinc and filter decoders) "
                        "(observed maximum is reported as max_ticks_per_byte); loops that do not pass through those functions would only "
                        "be seen by the wall-clock watchdog, which yields inconclusive, not a verdict",
                        "stack exhaustion depends on the build profile: quick runs the ladders in the monitoring profile and in the stock dev "
                        "profile (largest frames, no tail-call elimination), thorough additionally in plain release",
                        "stack exhaustion depends on the stack: ladders, long runs and flat documents are decoded on a thread with std::thread's "
                        "default 2 MiB stack (where a user's decoder typically runs), not on the 8 MiB main thread; the unchanged tree needs "
                        "less than 512 KiB for 128 nested levels in the dev profile"],
        "require_strata": {"both": ["offset-sweep", "digit-runs", "outcome:from_str:ok", "outcome:from_str:err", "outcome:reader:ok", "outcome:reader:err", "outcome:lazy:ok",
                                    "outcome:lazy:err", "outcome:json_slice:ok", "outcome:json_slice:err", "ladder-list:depth100000",
                                    "ladder-grid:depth100000", "ladder-json-list:depth100000", "prefix", "mutant", "corpus-mutant",
                                    "mutation:token-splice", "mutation:comma-insert", "mutation:terminator-delete", "bytes", "unicode-escape", "error-text"]},
        "min_evals": {"quick": 300_000, "thorough": 10_000_000},
    },
    "C07": {
        "quick": [phase(16, 4.0, 900)],
        "thorough": [phase(16, 13.0, 3000)],
        "rule": ("cases = (filter, record) pairs. (a) term matrix, complete: tag/not-tag/every comparison operator x every literal of a "
                 "25-literal pool, on every state of tag 'a' (missing, Null, each of 31 near-colliding values, empty list, list holding the "
                 "value, empty dict) = one cell each; (b) random and/or/paren filters (paths of 1-3 segments through nested dicts) on random "
                 "records through Dict::filter; (c) the same through EvalContext with a harness PathResolver whose refs form chains and a "
                 "cycle, including '*=='; (d) Grid::filter / filter_all = first / all matching rows by row identity. The filter is printed, "
                 "parsed by libhaystack and evaluated; the oracle is the reference evaluator of harness/src/reffilter.rs (statement "
                 "semantics). A disagreement is localised to the first single term that disagrees. distinct = distinct (filter, record)"),
        "assumptions": ["don't-cares are skipped and counted, never asserted: ordering of Numbers with different units, ordering of kinds "
                        "without a defined order (Bool, Uri, Ref, Symbol), equality of the same instant in two zones",
                        "'^sym' and 'rel?' are evaluated here against the empty default namespace (always false); with real defs in C13",
                        "path resolution of the caller-supplied resolver is the caller's code (delegated to the library's Dict resolver)"],
        "require_strata": {"both": ["long-chain", "term-matrix", "random", "resolver", "grid"]},
        "min_evals": {"quick": 300_000, "thorough": 8_000_000},
    },
    "C08": {
        "quick": [phase(16, 4.0, 900)],
        "thorough": [phase(16, 25.0, 3000)],
        "rule": ("cases = filter trees: (a) the bounded space of all trees 't', 't and t', 't or t', 't and t or t', 't or t and t', "
                 "'(t or t) and t' over a set of 46 small terms (~2.96e5 trees; enumerated completely across shards in thorough, strided "
                 "sample in quick); (b) random trees to paren depth 3 with every term kind and every literal kind the syntax admits "
                 "(escaped strings, numbers with units/exponents, dates, times, zoned timestamps, refs with dis, uris, symbols, bools). Each "
                 "is printed by the reference printer with random legal whitespace/line breaks, parsed by Filter::try_from, and the tree "
                 "observed through the public Or/And/Term fields - and once more through the Visitor protocol (accept_visitor dispatch) - must equal the printed tree; then Display -> try_from must give an equal "
                 "tree and an == filter. distinct = distinct trees"),
        "assumptions": ["the display name of the Ref operand of '*==' and of relation terms is a don't-care (not printed by Display, ignored by Ref equality)",
                        "NaN/INF/Coord/XStr/collections are outside the filter syntax; tag names avoid the keywords and/or/not/true/false"],
        "require_strata": {"both": ["small", "random", "term:cmp", "term:wildcard", "term:rel", "term:isa", "term:missing", "literal:dateTime",
                                    "literal:str", "literal:number", "literal:ref", "literal:uri", "literal:symbol", "literal:date", "literal:time",
                                    "literal:bool"]},
        "min_evals": {"quick": 150_000, "thorough": 3_000_000},
    },
    "C09": {
        "quick": [phase(16, 3.0, 900), phase(1, 1.0, 900, flavour="dev", streams=LADDER_STREAMS)],
        "thorough": [phase(16, 8.0, 3000),
                     phase(1, 1.0, 300, flavour="release", streams=LADDER_STREAMS),
                     phase(1, 1.0, 300, flavour="dev", streams=LADDER_STREAMS)],
        "crash_is_violation": True,
        "rule": ("cases = filter texts: parenthesis ladders '(', '(a and ', '(not a or ', and with closed sibling groups '((a) and ', "
                 "'((a or (b)) and (c) and ' at depths 1..1e5 closed and unclosed; valid filters "
                 "(reference printer) with every prefix (thorough; 24 sampled in quick) and 24 stacked-mutation mutants each; operators "
                 "without operands, token soup (incl. form feed, VT, NUL), raw bytes; long runs of one byte (to 1e5/1e6) between tokens; flat and/or chains; texts quoted in error messages at every byte length of 1-4-byte characters; relationship and '*==' terms. Filter::try_from runs under the panic/abort/fuel monitor "
                 "(16*len+512 decoder steps, confirmed at 1000x). Every filter that parses is evaluated on a record of a 5-record world "
                 "whose ref tags form cycles and self-loops and where a ref may resolve to an EMPTY record, through Dict::filter and through EvalContext over the real defs namespace "
                 "(tests/defs/defs.zinc) with a resolver that aborts the evaluation if asked more than 40 times (4*(records+1)+16)"),
        "assumptions": ["termination restated as bounded steps: lexer fuel for parsing, resolver-call cap for evaluation; a loop that touches "
                        "neither is only seen by the wall-clock watchdog (inconclusive)",
                        "ladders, long runs and flat chains are parsed on a thread with std::thread's default 2 MiB stack, in the monitoring and the dev profile"],
        "require_strata": {"both": ["offset-sweep", "digit-runs", "outcome:ok", "outcome:err", "eval:returned", "ladder-paren:depth100000", "prefix", "mutant", "soup", "relation", "error-text", "ladder-runs:len100000"]},
        "min_evals": {"quick": 300_000, "thorough": 10_000_000},
    },
    "C15": {
        "quick": [phase(16, 1.0, 900)],
        "thorough": [phase(16, 200.0, 3000)],
        "exhaustive": True,
        "rule": ("exhaustive over the unit database: every unit x every one of its identifiers: get_unit(id) is that unit (pointer "
                 "equality); '<x><id>' (Zinc) and {\"_kind\":\"number\",\"val\":x,\"unit\":id} (Hayson) decode to that unit and the exact "
                 "double for 9 magnitudes (1.5, -40, 0.001, 1e21, 1e-7, 5e-324, +0, -0, 123456.789); encode->decode of Number(x, unit) "
                 "through both codecs keeps unit and bits; reference-writer spellings (exponent, '_' separators, trailing zeros) of x "
                 "followed by the unit symbol decode to the unit. Sampled part: near-miss and random strings that are no identifier "
                 "(case flips, trimmed, padded, plural, one character changed) must give None. distinct = distinct (id, magnitude, path) cells"),
        "assumptions": ["exhaustive refers to units x identifiers x the 9 magnitudes; the non-identifier part is sampled",
                        "the unit table (units_generated.rs) is data: the harness enumerates it through the public UNITS map"],
        "require_strata": {"both": ["cold-start", "lookup", "zinc-decode-by-id", "hayson-decode-by-id", "roundtrip", "zinc-ref-spelling", "non-id"]},
        "min_evals": {"quick": 20_000, "thorough": 100_000},
    },
    "C16": {
        "quick": [phase(16, 1.0, 900)],
        "thorough": [phase(16, 60.0, 3000)],
        "exhaustive": True,
        "rule": ("exhaustive over all ordered pairs of database units (443^2 = 196,249) x 5 magnitudes: convert_to is Ok iff the dimension "
                 "vectors are equal (both absent counts as equal; both byte units), equals (x*sa+oa-ob)/sb recomputed by the harness to "
                 "1e-12 relative, and converting back returns x to 1e-9 relative (+ offset term); a*b and a/b, when Ok, give a database "
                 "unit whose dimension is the sum/difference and whose scale is the product/quotient to 1.5e-3 relative (the database's "
                 "own precision). Sampled: Number + - * / over random unit pairs and magnitudes: same unit kept, different units rejected, "
                 "values combined exactly, unit of * and / = the unit algebra's answer"),
        "assumptions": ["scale tolerance 1.5e-3 relative for derived units: the database rounds some scales (mile/hour 0.447027 vs 0.44704); a tighter oracle would alarm on correct code",
                        "the unit of (unit-less) +/- (unit-carrying) is not stated: counted as don't-care"],
        "require_strata": {"both": ["convert-pair", "number-arith"]},
        "min_evals": {"quick": 196_249, "thorough": 196_249},
    },
    "C13": {
        "quick": [phase(16, 2.0, 900)],
        "thorough": [phase(16, 5.0, 3000)],
        "exhaustive": True,
        "rule": ("(a) exhaustive over the shipped Project Haystack defs (tests/defs/defs.zinc): for every symbol supertypes_of, all_supertypes_of, "
                 "subtypes_of, all_subtypes_of, inheritance, choices_for, conjuncts_defs, has/has_subtype, fits_marker/val/choice/entity, "
                 "and fits(a,b) for ALL ordered pairs of symbols, compared as sets with plain BFS closures over the 'is' edges "
                 "(harness/src/refdefs.rs); reflect() of every def's own tag set and of random tag subsets, Reflection::fits and '^sym' "
                 "through an EvalContext over that namespace; (b) random acyclic taxonomies (<= 48 defs, depth <= 10; multiple inheritance, "
                 "diamonds, duplicate and undefined supertypes, conjuncts of defined parts, feature keys, rows without def, non-list 'is') "
                 "with all symbols, all pairs and random records; (c) the queries built on those: associations(parent, assoc) for stored and "
                 "reciprocal-computed associations (is / tag_on / tags and two synthetic ones, incl. non-association and undefined ones) "
                 "against the defs grid read directly, implementation() (conjunct parts + mandatory supertypes), def_of_dict, core_type_defs, "
                 "Reflection.entity_type (the single most specific reflected entity def), and protos() (children text/list + tags flattened "
                 "through fits) for records carrying a def with children. distinct = distinct symbols / taxonomies / records"),
        "assumptions": ["random taxonomies are acyclic and shallow (depth <= 10): all_supertypes_of re-expands shared ancestors, its cost is exponential in diamond depth",
                        "conjuncts are generated with defined parts only", "exhaustive refers to part (a)"],
        "require_strata": {"both": ["real:symbol", "real:reflect", "random-taxonomy", "random:taxonomy-with-associations", "real:protos-parent-with-children"]},
        "min_evals": {"quick": 500_000, "thorough": 500_000},
    },
    "C14": {
        "quick": [phase(8, 12.0, 900)],
        "thorough": [phase(16, 3.0, 1500),
                     phase(4, 0.15, 1200, flavour="tsan", streams=["schedule"]),
                     phase(16, 0.002, 2400, flavour="miri", streams=["schedule"])],
        "crash_is_violation": True,
        "rule": ("(history) 24-query scripts (supertypes/all_supertypes/inheritance/fits/reflect/relationship/implementation/tags over 4-7 "
                 "keys) run in 4 random orders on 4 fresh namespaces: every answer equals the graph oracle and the answer the same query "
                 "got under any other order. (schedule) trials: 2-16 threads released by a barrier against ONE cold namespace (random "
                 "taxonomy or the real defs), 1-4 hot keys, 6-25 queries per thread, hook H2 yield points between the cache's critical "
                 "sections driven by per-thread PRNGs (yield / spin / sleep); every answer is compared with the graph oracle and with a cold "
                 "single-threaded namespace (list answers include their length, so a partial or duplicated vector is seen); panics caught "
                 "per thread; deadlock detector = no query completed for 5 s AND every worker asleep with zero CPU delta. Thorough repeats "
                 "the schedule trials under ThreadSanitizer (-Zbuild-std) and under Miri (data races + UB, shard = scheduler seed). "
                 "evaluations = answers checked; distinct = distinct queries/trials"),
        "assumptions": ["schedules are sampled with widened windows, not enumerated; the event log reports how many contended misses, lost races "
                        "and distinct per-key interleavings were actually produced",
                        "a stall with busy threads is inconclusive (watchdog), only an all-asleep stall is a deadlock"],
        "require_strata": {"both": ["history:query", "schedule:trial-with-contended-miss", "schedule:trial-with-lost-race"]},
        "min_evals": {"quick": 100_000, "thorough": 2_000_000},
    },
    "C06": {
        "quick": [phase(16, 1.0, 900)],
        "thorough": [phase(16, 1.0, 1500)],
        "exhaustive": True,
        "rule": ("exhaustive: every bundled zone with an unambiguous city name (554) x every UTC-offset transition of that zone in "
                 "1980-2060 (day-step scan + bisection through chrono-tz) x the instants t-1s, t, t+1s, the middle and the far edge of "
                 "the repeated / skipped local hour on both sides, the last nanosecond before t x fraction digits (all of 0-9 in "
                 "thorough, 2 settings per instant in quick), plus four fixed probes per zone; each through "
                 "parse_from_rfc3339_with_timezone (city and IANA name; text at the zone's offset and at UTC), Zinc text written by the "
                 "harness, Zinc and Hayson round trips of the library's value, Hayson documents written by the harness, and (millisecond "
                 "instants) the C API haystack_value_make_tz_datetime / make_utc_datetime + get_datetime_date/time/timezone: same UTC "
                 "instant, same local offset, same zone name. Local times inside a skipped hour written with the old offset must be "
                 "rejected or denote that instant. Offsets: every RFC 3339 offset from -12:00 to +14:00 in 15-minute steps x 50 instants "
                 "x fraction digits through parse_from_rfc3339 / make_datetime_from_iso / FromStr / Hayson without tz: Err or exactly "
                 "the instant the text denotes"),
        "assumptions": ["chrono-tz is the trusted zone database (the property is about libhaystack not losing what it knows)",
                        "zones whose city name is shared with another zone are outside the model (Appendix C)",
                        "exhaustive refers to zones x transitions x listed instants; instants between transitions are covered by C01/C02 sampling"],
        "require_strata": {"both": ["cold-start", "zone", "transition:fall-back", "transition:spring-forward", "transition:last-nanosecond",
                                    "transition:skipped-hour-old-offset", "offset-sweep", "utc", "c-api"]},
        "min_evals": {"quick": 200_000, "thorough": 1_000_000},
    },
    "C11": {
        "quick": [phase(16, 2.0, 900)],
        "thorough": [phase(16, 4.0, 3000)],
        "rule": ("(1) fixed point: for every text a decoder accepts - grammar-generated Zinc with random spellings, the shipped corpus "
                 "files whole and in slices, accepted mutants of both, the library's Hayson for generated values and accepted mutants of "
                 "it, benches/json/points.json - decode, encode, decode again and compare the two decoded values in the strict model; "
                 "(2) stream = buffer: the same text through Parser::make(reader).parse_value over the reader family (chunks of "
                 "1/2/7/random/whole, Interrupted on every other call) must give the value (or the rejection) from_str gives, and the lazy "
                 "row iterator the rows parse_grid gives, in order; (3) laziness: generated grids with rows >= 64 bytes read one byte at a "
                 "time through a counting reader: when row i is handed out the reader has been asked for no more than the end of row i + "
                 "the first token of row i+1 + 16 bytes of lexer look-ahead. Also (4) texts no well-formed value produces: the encoders' "
                 "output for constructible ill-formed values (C10's generator) and reference-writer Hayson for relaxed values (non-finite "
                 "numbers with units, arbitrary Ref/Symbol/XStr-type/key strings, Uris with controls, duplicate columns), and the reference "
                 "Hayson writer's spellings of well-formed values. distinct = distinct accepted texts"),
        "assumptions": ["the grid's 'ver' field (version of the text it was read from) is not part of the value", 
                        "the 16-byte look-ahead slack: the scanner holds one byte, the number/date splitter peeks up to 9 (observed maximum reported)"],
        "require_strata": {"both": ["zinc:grammar:accepted", "zinc:mutant:accepted", "zinc:corpus:accepted", "hayson:hayson:accepted", "hayson:mutant:accepted",
                                    "stream-vs-buffer", "lazy-vs-eager", "laziness", "reader:One", "reader:Random", "hayson:liberal:accepted", "hayson:illformed:accepted",
                                    "zinc:illformed:accepted", "hayson:hayson-ref:accepted"]},
        "min_evals": {"quick": 200_000, "thorough": 5_000_000},
    },
    "C20": {
        "quick": [phase(16, 4.0, 900)],
        "thorough": [phase(16, 60.0, 3000)],
        "rule": ("(a) precedence, complete: all 2^8 presence subsets of dis, disMacro, disKey, name, def, tag, navName, id x 12 value-kind "
                 "variants (Str, empty Str, Ref with/without dis, Number, Bool, Marker, Uri, Symbol, Null, List, random Unicode), with and "
                 "without a default, through dict_to_dis (with a localisation table) and Dict::dis(); (b) macro patterns: concatenations of "
                 "0-8 pieces from {'$','{','}','<','>', identifiers of 1-8 chars, '$a' '${a}' '${ab}' '$<k>' '$<x>' '$$' '${' '$<', space, "
                 "non-ASCII} with a random subset of the tags present; (c) arbitrary Unicode patterns. oracle = the eight-tag chain and a "
                 "hand-written left-to-right macro scanner (harness/src/mon_c20.rs): '$tag' = maximal identifier, '${tag}', '$<key>', "
                 "unresolved or malformed stays verbatim, substituted text is not re-scanned; text without '$' unchanged; no panic. "
                 "non-trivial = pattern contains '$'"),
        "assumptions": ["display text of a non-Str, non-Ref value is the library's own Display (that text is C10's concern)"],
        "require_strata": {"both": ["precedence", "macro:brace", "macro:angle", "macro:plain", "macro:no-dollar", "macro-unicode"]},
        "min_evals": {"quick": 200_000, "thorough": 10_000_000},
    },
    "C05": {
        "quick": [phase(16, 4.0, 900)],
        "thorough": [phase(16, 15.0, 3000)],
        "rule": ("cases = the C01 generator's model values; (A) the spec-derived Hayson reference writer (harness/src/refjson.rs) writes a "
                 "document with members of every object in random order (incl. _kind anywhere), '_kind':'dict' present/absent, grid meta "
                 "absent / {} / with ver, column meta absent/present, tz present/absent for UTC, 'Z' vs '+00:00', unit-less numbers plain or "
                 "as {_kind:number}, integers as 5 / 5.0 / 5e0, exponent forms, \\uXXXX (incl. surrogate pairs) and \\/ escapes, random "
                 "whitespace; libhaystack must decode it (from_str / from_slice / from_value in turn) to the value; (B) libhaystack's own "
                 "document must be accepted by the strict reference reader (right _kind, only the field names val unit dis tz lat lng type "
                 "meta cols rows name) and denote the value; plus ALL 6 member orders of the five 3-member kinds through all 3 entry points"),
        "assumptions": [WELLFORMED, "the Hayson mapping as transcribed in DESIGN Appendix B is the trusted base",
                        "'ver' is the reserved version tag of grid meta", "NaN/INF are spelled {_kind:number,val:'NaN'|'INF'|'-INF'}"],
        "require_strata": {"both": ["spelling:member-order", "spelling:kind-dict-present", "spelling:meta-absent", "spelling:meta-with-ver",
                                    "spelling:empty-col-meta-present", "spelling:tz-present-for-utc", "spelling:zero-offset-numeric",
                                    "spelling:number-exponent", "spelling:integer-as-decimal", "spelling:unitless-number-as-object",
                                    "spelling:esc-uXXXX", "member-orders", "grid:meta", "grid:colmeta", "num:nan", "num:inf"]},
        "min_evals": {"quick": 50_000, "thorough": 1_000_000},
    },
    "C17": {
        "quick": [phase(16, 4.0, 900)],
        "thorough": [phase(16, 100.0, 3000)],
        "crash_is_violation": True,
        "rule": ("cases = random histories of C API calls (quick 16x130 histories of 60 calls, thorough 16x1250 of 200) over a pool of "
                 "handles, every extern fn: make/is/get for every kind, push/get/set/remove/len on lists, insert/get/remove/keys/len on "
                 "dicts, grid from rows (with meta)/len/row_at, to/from Zinc and JSON, filter parse/match_dict/first_match/match_all, "
                 "utc/tz datetime constructors and getters, destroy, result holders that are fresh or already own data, borrowed entry "
                 "pointers passed back as entries, a failure left unread followed by another failure, filters written from the live data so that grid matches select rows (match_all compared as a whole grid: columns and meta too), failing calls that quote 1..1100-byte texts of 1/2/3/4-byte characters (error-text sweep), values whose text carries NUL (decoded from \\u0000 escapes), and 2-4 threads each driving its own handle pool concurrently (the error slot and every result are per thread); arguments valid / wrong kind / out of range / null / non-UTF-8 / "
                 "invalid text. Every handle is mirrored by a harness-side Value on which the corresponding Rust operation is applied. "
                 "After each call: the return value equals the model's; on failure the documented sentinel (None/null, usize::MAX, "
                 "u32::MAX, NaN, ERR) AND a non-null last_error_message() that is cleared by reading it; on success no stale error; all "
                 "live handles deep-equal their mirrors (strict model). evaluations = calls; distinct = distinct histories"),
        "assumptions": ["calls go through the Rust signatures of the extern \"C\" functions, as the property says",
                        "set_list_entry_at: the documentation says both 'set' and 'insert at'; only get(i)==entry and 'other elements keep "
                        "their order' are asserted, not the length",
                        "a container is never passed as its own entry (aliasing &mut/& is outside the protocol)"],
        "require_strata": {"both": ["sequence", "capi:filter-grid:some-row-matches", "error-text-completed", "threads", "extreme-dates-completed", "holder-reuse-completed"]},
        "min_evals": {"quick": 100_000, "thorough": 3_000_000},
    },
    "C18": {
        "quick": [phase(16, 1.0, 900), phase(8, 0.5, 900, flavour="asan")],
        "thorough": [phase(16, 20.0, 3000), phase(16, 1.5, 3000, flavour="asan"), phase(4, 1.0, 1200, flavour="tsan", streams=["threads"]),
                     phase(16, 0.3, 1500, flavour="valgrind"),
                     phase(16, 1.0, 2400, flavour="miri")],
        "crash_is_violation": True,
        "rule": ("the C17 driver, which obeys the ownership protocol (every handle, filter and returned string destroyed exactly once by its "
                 "destroy function; borrowed entry pointers read immediately and dropped before the container is touched again), run (a) "
                 "natively as an abort monitor (a panic inside extern \"C\" kills the worker and is attributed through the progress marker), "
                 "(b) under AddressSanitizer + LeakSanitizer (halt_on_error, detect_leaks) in short processes, (c) in thorough under Miri "
                 "(3 histories of 30 calls per shard; invalid references, leaks), under valgrind memcheck on the plain release build (use of "
                 "uninitialised values, invalid accesses/frees, definite and indirect leaks) and, for the threads stream, under "
                 "ThreadSanitizer. The driver also feeds failing calls 1..1100-byte texts of 1- to 4-byte characters (error-text sweep), "
                 "values whose text carries NUL, argument pairs that cut a multi-byte character between them, and runs 2-4 threads each "
                 "with its own handle pool. Null sweep: every pointer parameter of every non-destroy "
                 "function passed as null, one at a time (92 call sites): failure sentinel + error message, live handles untouched. "
                 "evaluations = calls; distinct = distinct histories + sweep sites"),
        "assumptions": ["the model's bookkeeping holds only pointers it owns and frees them at teardown, so a leak inside the library is unreachable at exit and reported by LSan",
                        "ASan's red-zone blind spots (non-adjacent overflow, reuse of the same size class) are covered only by the small Miri subset"],
        "require_strata": {"both": ["sequence", "null-sweep", "null-sweep-completed", "error-text-completed", "threads", "extreme-dates-completed", "holder-reuse-completed"]},
        "min_evals": {"quick": 100_000, "thorough": 3_000_000},
    },
}
