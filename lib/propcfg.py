"""Per-property configuration of the check driver: build flavours, shard counts, budgets,
evidence rule texts and assumptions. Case counts live in the monitors (ctx.n(quick, thorough));
`scale` multiplies them."""

CARGO = ["cargo", "build", "--offline"]

FLAVOURS = {
    # optimised, overflow checks + debug assertions on (see DESIGN §1 "Build profiles")
    "mon": {"cmd": CARGO + ["--profile", "mon"], "bin": "target/mon/hsv"},
    # plain release: smaller frames, what a user ships; used for stack-exhaustion ladders
    "release": {"cmd": CARGO + ["--release"], "bin": "target/release/hsv"},
    # stock dev profile: what `cargo build` gives a user
    "dev": {"cmd": CARGO, "bin": "target/debug/hsv"},
    "asan": {
        "cmd": ["cargo", "+nightly", "build", "--offline", "--profile", "mon", "--target", "x86_64-unknown-linux-gnu",
                "--target-dir", "target-asan"],
        "env": {"RUSTFLAGS": "-Zsanitizer=address -Cforce-frame-pointers=yes"},
        "bin": "target-asan/x86_64-unknown-linux-gnu/mon/hsv",
        "run_env": {"ASAN_OPTIONS": "detect_leaks=1:halt_on_error=1:abort_on_error=1:detect_stack_use_after_return=0:symbolize=1",
                    "LSAN_OPTIONS": "report_objects=1"},
    },
    "tsan": {
        "cmd": ["cargo", "+nightly", "build", "--offline", "--profile", "mon", "-Zbuild-std", "--target", "x86_64-unknown-linux-gnu",
                "--target-dir", "target-tsan"],
        "env": {"RUSTFLAGS": "-Zsanitizer=thread -Cforce-frame-pointers=yes"},
        "bin": "target-tsan/x86_64-unknown-linux-gnu/mon/hsv",
        "run_env": {"TSAN_OPTIONS": "halt_on_error=0:exitcode=66:report_signal_unsafe=0"},
    },
}


def phase(shards=16, scale=1.0, budget=60, flavour="mon", streams=None):
    return {"shards": shards, "scale": scale, "budget": budget, "flavour": flavour, "streams": streams}


def crash_signature(prop, crash):
    """Signature of a worker death: property-specific classification of the dying stream."""
    stream = crash["case"][0] if crash.get("case") else "?"
    err = crash.get("stderr", "")
    kind = "abort"
    if "stack overflow" in err or crash.get("rc") in (-11, -6) and "overflowed its stack" in err:
        kind = "stack-overflow"
    elif "AddressSanitizer" in err:
        kind = "asan"
    elif "LeakSanitizer" in err:
        kind = "lsan"
    elif "ThreadSanitizer" in err:
        kind = "tsan"
    return f"worker-death:{kind}:{stream}:{crash.get('flavour', 'mon')}"


WELLFORMED = ("well-formed values only (C01 clause): identifier tag/column names, Ref/Symbol bodies over the id alphabet, "
              "Symbols start with a lower-case letter, XStr types [A-Z][A-Za-z0-9_]* except the literal 'C', Uris without "
              "control characters, database units, unit-less non-finite numbers, years 0000-9999, instants 1980-2060 in zones "
              "with an unambiguous city name (harness-computed from chrono_tz::TZ_VARIANTS), row keys are column names, >=1 column")

PROPS = {
    "C01": {
        "quick": [phase(16, 1.0, 60)],
        "thorough": [phase(16, 1.0, 1500)],
        "rule": ("cases = model values from the stratified generator (stream 'scalar': every scalar kind in turn; stream 'value': "
                 "lists/dicts/grids nested to depth 4 (quick) / 6 (thorough)); each is encoded with to_zinc_string, decoded with "
                 "zinc::decode::from_str and compared component-wise in the harness model (f64 by bits, Ref dis, zone name, "
                 "offset, Null vs missing cell). non-trivial = carries a payload (not Null/Marker/NA/Remove/Bool) or has more "
                 "than one node; distinct = distinct structural fingerprints, merged exactly across shards"),
        "assumptions": [WELLFORMED, "NaN payload bits are one class", "absent and empty grid/column meta are the same value",
                        "chrono-tz is the trusted zone database"],
        "require_strata": {"both": ["grid:meta", "grid:colmeta", "grid:zero-rows", "grid:missing-cell", "grid:null-cell", "num:nan",
                                    "num:inf", "num:neg0", "num:subnormal", "num:unit", "str:astral", "str:control", "str:quote",
                                    "str:backslash", "str:dollar", "dt:zone", "ref:dis", "xstr", "coord", "symbol", "uri"]},
        "min_evals": {"quick": 50_000, "thorough": 1_000_000},
    },
}
