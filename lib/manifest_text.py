HOOK_COMMITS = ["8abe067"]
NOTES = ("Technique family: runtime monitoring and sanitizers. Exit codes: 0 held, 1 violation, 3 inconclusive "
         "(build failure / watchdog / empty stratum). Known findings: /verif/known_findings.json (signature-keyed).")
NOT_APPLICABLE = {}
CHECKS = {
    "C01": {
        "technique": "round-trip monitor: generated well-formed values -> to_zinc_string -> from_str, compared in a harness-owned strict value model; failures shrunk and signature-classified",
        "level": ("Held on the executions observed: ~3e5 (quick) / ~5e6 (thorough) generated values across every kind and the listed strata, "
                  "each checked component-wise. Sampling, not proof: a defect confined to inputs outside the generator's strata is missed."),
        "note": "Trusted: the harness value model and bridge (public constructors/fields only), chrono-tz zone data, the well-formedness bounds listed in the evidence assumptions.",
        "design_ref": "DESIGN.md §4 C01",
    },
}
