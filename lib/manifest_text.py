HOOK_COMMITS = ["8abe067", "98c08e4", "e4468a7"]
NOTES = ("Technique family: runtime monitoring and sanitizers. Exit codes: 0 held, 1 violation, 3 inconclusive "
         "(build failure / watchdog / empty stratum). Known findings: /verif/known_findings.json (signature-keyed).")
NOT_APPLICABLE = {}
CHECKS = {
    "C01": {
        "technique": "round-trip monitor: generated well-formed values -> to_zinc_string -> from_str, compared in a harness-owned strict value model; failures shrunk and signature-classified",
        "level": ("Held on the executions observed: ~3e5 (quick) / ~5e6 (thorough) generated values across every kind and the listed strata, "
                  "each checked component-wise. Sampling, not proof: a defect confined to inputs outside the generator's strata is missed."),
        "note": "Trusted: the harness value model and bridge (public constructors/fields only), chrono-tz zone data, the well-formedness bounds listed in the evidence assumptions.",
        "design_ref": "DESIGN.md §4 C01",
    },
    "C02": {
        "technique": "round-trip monitor over all 3x3 serde_json entry points and the typed Serialize/Deserialize impls, compared in the strict harness value model",
        "level": ("Held on the executions observed: ~3e5 (quick) / ~5e6 (thorough) generated values, every entry-point combination, "
                  "doubles compared by bit pattern, timestamps by instant+offset+zone. Sampling, not proof."),
        "note": "Trusted: harness value model and bridge, serde_json itself, chrono-tz zone data, the well-formedness bounds in the evidence assumptions.",
        "design_ref": "DESIGN.md §4 C02",
    },
    "C10": {
        "technique": "panic/abort monitor: ill-formed and decoder-image values offered to every encoder under catch_unwind in isolated worker processes",
        "level": "Held on ~3e5 (quick) / ~6e6 (thorough) constructible values incl. chains nested to 64; any panic (with location) or worker death is a violation. Sampling.",
        "note": "Trusted: the ill-formed generator reaches the shapes that matter (every String field arbitrary, mismatched grids, extreme dates); depth bound 64 from the property.",
        "design_ref": "DESIGN.md §4 C10",
    },
    "C12": {
        "technique": "law monitor: all pairs and triples of near-collision pools checked against the Eq/Hash/Ord/PartialOrd laws, plus HashSet/BTreeSet/sort/dedup behaviour against a model",
        "level": "Held on every pair and triple of the fixed pools (complete for those pools) and of 2e4 (quick) / 1e6 (thorough) random pools. Laws over unseen payloads are not covered.",
        "note": "Trusted: the pools contain the relevant near-collisions; NaN excluded per the statement.",
        "design_ref": "DESIGN.md §4 C12",
    },
    "C19": {
        "technique": "kind monitor: predicate partition, exhaustive code/name bijection, typed-accessor matrix and grid-construction oracle over generated values",
        "level": "Kind table: exhaustive (256 codes, all names, near misses). Accessors and grid construction: held on ~1e5 (quick) / ~2.5e6 (thorough) generated values and record lists.",
        "note": "Trusted: harness value model and bridge.",
        "design_ref": "DESIGN.md §4 C19",
    },
    "C04": {
        "technique": "two-way differential monitor against an independent spec-derived Zinc writer (random legal spellings) and strict reader",
        "level": "Held on ~3e5 (quick) / ~5e6 (thorough) values x one random spelling each, both directions; every listed spelling freedom observed. Sampling; the trusted base is my transcription of the grammar.",
        "note": "Trusted: harness/src/refzinc.rs (grammar transcription, DESIGN Appendix A), harness value model, chrono-tz.",
        "design_ref": "DESIGN.md §4 C04, Appendix A",
    },
    "C03": {
        "technique": "crash/abort/fuel monitor in isolated worker processes: hostile texts through every decoder entry point and a hostile reader family; logical-step fuel via hook H1; write-ahead progress marker for abort attribution",
        "level": "Held on ~9e5 (quick) / ~3e7 (thorough) decoder executions: ladders to depth 1e5, all prefixes of ~2e5 documents (thorough), mutants, bytes. Sampling; termination is a bounded-step restatement.",
        "note": "Trusted: hook H1 sits in every loop that can spin (Scanner::read, both Lexer::read, every while/loop iteration of the decoders); the fuel bound 16*len+512 (observed max 5 steps/byte).",
        "design_ref": "DESIGN.md §4 C03, §2 H1",
    },
    "C07": {
        "technique": "reference-evaluator monitor: printed filter -> libhaystack parse+eval vs. a harness evaluator of the stated semantics, over a complete term x tag-state matrix and random filters/records/resolvers/grids",
        "level": "Term matrix complete for its pools (~5e3 cells); ~4.5e5 (quick) / ~1e7 (thorough) random (filter, record) evaluations. Don't-cares skipped and counted.",
        "note": "Trusted: harness/src/reffilter.rs as the reading of the filter semantics in the property statement.",
        "design_ref": "DESIGN.md §4 C07",
    },
    "C08": {
        "technique": "tree observer: reference printer (random legal spacing) -> Filter::try_from -> tree read through public fields vs. harness AST; Display -> parse identity",
        "level": "Small-tree space enumerated completely in thorough (2.96e5 trees), sampled in quick; plus 1.3e5 (quick) / 3.2e6 (thorough) random trees with every literal kind.",
        "note": "Trusted: harness printer/AST as the reading of the filter grammar; refzinc writer for literal spellings.",
        "design_ref": "DESIGN.md §4 C08",
    },
    "C09": {
        "technique": "crash/abort/fuel monitor for Filter::try_from in isolated workers plus resolver-call-cap monitor for evaluation over cyclic ref worlds and the real defs namespace",
        "level": "Held on ~1.5e6 (quick) / ~5e7 (thorough) parser executions incl. ladders to depth 1e5 and every prefix of valid filters; every accepted text evaluated under the call cap.",
        "note": "Trusted: hook H1 covers the parser's loops; the resolver cap (40 calls for a 5-record world) is far above what a visited-set traversal needs (observed max reported).",
        "design_ref": "DESIGN.md §4 C09",
    },
    "C15": {
        "technique": "exhaustive lookup + codec monitor over the unit database (units x identifiers x magnitudes), sampled non-identifier probe",
        "level": "Complete for the finite part: 443 units, all their identifiers, 9 magnitudes, both codecs. Non-identifiers: 1e5 (quick) / 3e6 (thorough) near misses.",
        "note": "Trusted: enumeration of the database through the public UNITS map; refzinc number spellings.",
        "design_ref": "DESIGN.md §4 C15",
    },
    "C16": {
        "technique": "exhaustive conversion/algebra monitor over all ordered unit pairs with the formula recomputed by the harness; sampled Number arithmetic",
        "level": "Complete over 196,249 ordered pairs x 5 magnitudes for convert_to, * and /; Number arithmetic sampled 3e5 (quick) / 6e6 (thorough).",
        "note": "Trusted: the dimension vectors and scales in the database are data; tolerances as stated in the evidence.",
        "design_ref": "DESIGN.md §4 C16",
    },
    "C13": {
        "technique": "graph-oracle monitor: every namespace query compared, as sets, with BFS closures over the 'is' edges; exhaustive on the shipped defs, sampled on random taxonomies",
        "level": "Complete for tests/defs/defs.zinc (714 symbols, 509,796 ordered fits pairs, every per-symbol query); 5e3 (quick) / 1.3e5 (thorough) random taxonomies.",
        "note": "Trusted: harness/src/refdefs.rs (30 lines of BFS) and the Zinc decoder used to load the defs grid.",
        "design_ref": "DESIGN.md §4 C13",
    },
    "C14": {
        "technique": "stress monitor with injected yield points (hook H2) + answer oracle + deadlock detector + cache event log; ThreadSanitizer and Miri runs of the same workload in thorough",
        "level": "Held on ~2e3 (quick) / ~3e4 (thorough) concurrent trials on cold namespaces with hundreds of contended misses and lost races observed per run, zero TSan/Miri reports. Schedules are sampled, not enumerated.",
        "note": "Trusted: the oracle; that the yield points sit where a get-or-compute-then-insert cache can go wrong; TSan sees dashmap's locks (std instrumented through -Zbuild-std).",
        "design_ref": "DESIGN.md §4 C14, §2 H2",
    },
    "C06": {
        "technique": "timestamp monitor: (instant, offset, zone) triple computed by the harness from chrono-tz, compared after every constructor and codec path, exhaustively at all offset transitions of all unambiguous zones and over the RFC 3339 offset sweep",
        "level": "Complete for 554 zones x ~29,000 transitions 1980-2060 x 8 instants (x 10 fraction settings in thorough) x 11 paths, and 105 offsets x 50 instants.",
        "note": "Trusted: chrono-tz zone data and chrono's FixedOffset arithmetic; the harness's own civil-date conversion.",
        "design_ref": "DESIGN.md §4 C06, Appendix C",
    },
    "C11": {
        "technique": "fixed-point monitor over accepted texts (strict model equality of first and second decode), reader-family differential, and a byte-counting reader that bounds the lazy iterator's read-ahead at every yield",
        "level": "Held on ~4e5 (quick) / ~8e6 (thorough) accepted texts and mutants, both corpus files whole; laziness bound checked at every row of 5e3 (quick) / 1e5 (thorough) generated grids.",
        "note": "Trusted: harness value model; the reference writer for generating texts; the look-ahead slack of 16 bytes.",
        "design_ref": "DESIGN.md §4 C11",
    },
    "C20": {
        "technique": "reference-program monitor: eight-tag precedence chain and a hand-written macro scanner compared with dict_to_dis / Dict::dis / dis_macro over all presence subsets and generated patterns",
        "level": "Precedence complete over 256 subsets x 12 variants x 2 defaults; 3.7e5 (quick) / 1.8e7 (thorough) macro patterns.",
        "note": "Trusted: the reference scanner as the reading of the macro syntax in the statement.",
        "design_ref": "DESIGN.md §4 C20",
    },
    "C05": {
        "technique": "two-way differential monitor against an independent spec-derived Hayson writer (member orders, optional members, number/string spellings) and strict reader",
        "level": "Held on ~3e5 (quick) / ~5e6 (thorough) values x one random document each, both directions, all three decode entry points; all member orders of the small objects enumerated.",
        "note": "Trusted: harness/src/refjson.rs (mapping transcription, DESIGN Appendix B), serde_json as JSON parser for the reference reader.",
        "design_ref": "DESIGN.md §4 C05, Appendix B",
    },
    "C17": {
        "technique": "sequential-model monitor of the C API: random call histories over a handle pool, each handle mirrored by a Rust Value; return values, sentinels, error-message protocol and deep equality of all handles checked after every call",
        "level": "Held on ~1.2e5 (quick) / ~4e6 (thorough) modelled calls covering every extern function and five argument classes. Sampling of histories.",
        "note": "Trusted: the model applies the public Rust operation named by each C function; the documented sentinels as read from the doc comments.",
        "design_ref": "DESIGN.md §4 C17",
    },
    "C18": {
        "technique": "sanitizer monitor: the protocol-obeying C API driver under AddressSanitizer+LeakSanitizer (quick and thorough) and Miri (thorough), native abort monitor, exhaustive null sweep of every pointer parameter",
        "level": "Zero ASan/LSan/Miri reports and no worker death on ~1.6e5 (quick) / ~4e6 (thorough) calls; null sweep complete (92 sites).",
        "note": "Trusted: ASan/LSan/Miri themselves; that the driver follows the documented ownership protocol.",
        "design_ref": "DESIGN.md §4 C18",
    },
}
