#!/usr/bin/env python3
"""summarise V lines from a worker's stdout"""
import sys, json
n=0
for l in sys.stdin:
    if not l.startswith('V '): continue
    j=json.loads(l[2:]); n+=1
    w=j.get('witness') or {}
    t=w.get('zinc') or w.get('json') or w.get('text') or ''
    print(j['sig'][:110],'|',j['what'][:150].replace('\n','\\n'),'|',repr(t)[:130])
print(n,'signatures')
