#!/usr/bin/env python3
"""repl.py FILE  (reads OLD\n====\nNEW from stdin) exact single replacement"""
import sys
p=sys.argv[1]
data=sys.stdin.read()
old,new=data.split('\n====\n',1)
if new.endswith('\n') and not old.endswith('\n'): new=new[:-1]
s=open(p).read()
n=s.count(old)
if n!=1:
    print("match count",n); sys.exit(1)
open(p,'w').write(s.replace(old,new))
