#!/usr/bin/env python3
"""repl.py FILE  (reads OLD\n====\nNEW from stdin) exact single replacement"""
import sys
p=sys.argv[1]
data=sys.stdin.read()
old,new=data.split('\n====\n',1)
if new.endswith('\n') and not old.endswith('\n'): new=new[:-1]
s=open(p,newline='').read()
crlf='\r\n' in s
if crlf:
    old=old.replace('\n','\r\n'); new=new.replace('\n','\r\n')
n=s.count(old)
if n!=1:
    print("match count",n); sys.exit(1)
open(p,'w',newline='').write(s.replace(old,new))
