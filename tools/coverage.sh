#!/bin/bash
# Line coverage of /repo's sources under the monitors' own workloads (a measurement of what the workloads
# reach, not a verdict). Builds the harness with -Cinstrument-coverage into a scratch target dir under /tmp,
# runs one shard of every property's quick workload, prints the llvm-cov report and removes the scratch dirs.
# usage: tools/coverage.sh [scale] > coverage/summary.txt
set -u
SCALE=${1:-2}
HERE=$(cd "$(dirname "$0")/.." && pwd)
T=/tmp/hsv-cov-target
D=/tmp/hsv-cov-data
B=$(rustc +nightly --print sysroot)/lib/rustlib/x86_64-unknown-linux-gnu/bin
rm -rf "$D"; mkdir -p "$D"
(cd "$HERE/harness" && RUSTFLAGS="-Cinstrument-coverage" CARGO_NET_OFFLINE=true cargo +nightly build --offline --profile mon --target-dir "$T" >/dev/null 2>&1) || { echo "coverage build failed"; exit 3; }
pids=()
for p in C01 C02 C03 C04 C05 C06 C07 C08 C09 C10 C11 C12 C13 C14 C15 C16 C17 C18 C19 C20; do
  (cd "$HERE/harness" && LLVM_PROFILE_FILE="$D/$p-%p.profraw" timeout 1200 "$T/mon/hsv" $p --tier quick --seed "${VERIF_SEED:-1}" --shard 0/1 --scale "$SCALE" --budget 900 --progress "$D/$p.prog" --fpfile "$D/$p.fp" >"$D/$p.out" 2>"$D/$p.err") &
  pids+=($!)
done
for x in "${pids[@]}"; do wait "$x"; done
"$B/llvm-profdata" merge -sparse "$D"/*.profraw -o "$D/all.profdata"
echo "# line coverage of /repo/src under one shard of every property's quick workload (scale $SCALE)"
"$B/llvm-cov" report "$T/mon/hsv" -instr-profile="$D/all.profdata" --ignore-filename-regex='(registry|rustc|rustup|verif/harness|/tmp/)' 2>/dev/null \
  | awk 'NR>2 && $1 !~ /^-+$/ {printf "%-62s lines %6s missed %6s  %s\n", $1, $8, $9, $10}'
echo
echo "# uncovered lines"
for f in $(cd /repo && git ls-files 'src/*.rs' | grep -v units_generated); do
  "$B/llvm-cov" show "$T/mon/hsv" -instr-profile="$D/all.profdata" "/repo/$f" 2>/dev/null | grep -E "^ +[0-9]+\| +0\|" | sed "s|^|$f:|" | cut -c1-160
done
rm -rf "$T" "$D"
