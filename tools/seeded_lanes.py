#!/usr/bin/env python3
"""seeded_lanes.py [lanes] — re-run the owning checks' quick tier against EVERY seeded change, several at a time.
Each lane has its own scratch worktree of /repo (/tmp/lane-K/repo) and its own copy of /verif (/tmp/lane-K/verif, harness
path dependency rewritten to that worktree), so patches never touch /repo. Results go into the seeded change's meta.json
(check_results) as with seeded_run.py; a summary line per change is printed. The lanes are removed at the end.
The registered checks themselves always run against /repo; this is only the regression harness for the seeded corpus."""
import glob, json, os, subprocess, sys, threading, queue, shutil
L = int(sys.argv[1]) if len(sys.argv) > 1 else 3
only = sys.argv[2:]
def sh(cmd, **kw):
    return subprocess.run(cmd, shell=True, stdout=subprocess.PIPE, stderr=subprocess.STDOUT, text=True, **kw)
head = sh("git -C /repo rev-parse HEAD").stdout.strip()
dirs = sorted(d for d in glob.glob("/verif/seeded/*") if os.path.exists(d + "/patch.diff"))
if only:
    dirs = [d for d in dirs if any(o in os.path.basename(d) for o in only)]
q = queue.Queue()
for d in dirs:
    q.put(d)
lock = threading.Lock()
def lane(k):
    base = f"/tmp/lane-{k}"
    sh(f"git -C /repo worktree remove --force {base}/repo; rm -rf {base}; mkdir -p {base}")
    sh(f"git -C /repo worktree add --detach {base}/repo {head}")
    sh(f"rsync -a --exclude 'harness/target*' --exclude replay --exclude .git --exclude seeded /verif/ {base}/verif/")
    sh(f"sed -i 's|path = \"/repo\"|path = \"{base}/repo\"|' {base}/verif/harness/Cargo.toml")
    env = dict(os.environ, REPO_DIR=f"{base}/repo", VERIF_DIR=f"{base}/verif")
    while True:
        try:
            d = q.get_nowait()
        except queue.Empty:
            break
        name = os.path.basename(d)
        if name.startswith("revfix-"):
            meta = json.load(open(d + "/meta.json"))
            props = meta.get("breaks_properties", [])
        else:
            props = []
        r = sh(f"python3 /verif/tools/seeded_run.py {d} {' '.join(props)}", env=env)
        with lock:
            print(f"[lane {k}] " + " | ".join(l[:170] for l in r.stdout.strip().split("\n")[-2:]), flush=True)
    sh(f"git -C /repo worktree remove --force {base}/repo; rm -rf {base}")
ts = [threading.Thread(target=lane, args=(k,)) for k in range(L)]
for t in ts: t.start()
for t in ts: t.join()
sh("git -C /repo worktree prune")
print("ALL-DONE")
