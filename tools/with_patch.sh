#!/bin/sh
# usage: with_patch.sh [-R] <patch> -- <command...>   apply patch to /repo, run command in /verif, always restore /repo
REV=""
if [ "$1" = "-R" ]; then REV="-R"; shift; fi
P="$1"; shift; shift
case "$P" in /*) ;; *) P="$PWD/$P";; esac
if ! git -C /repo apply $REV "$P"; then echo "PATCH DID NOT APPLY"; exit 9; fi
cd /verif && "$@"
RC=$?
git -C /repo checkout -- . 
exit $RC
