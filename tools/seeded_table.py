#!/usr/bin/env python3
"""Print the markdown table of seeded changes and which checks caught them (from seeded/*/meta.json)."""
import json, glob, os
rows=[]
for d in sorted(glob.glob('/verif/seeded/*')):
    mp=os.path.join(d,'meta.json')
    if not os.path.exists(mp): continue
    m=json.load(open(mp))
    name=os.path.basename(d)
    if name.startswith('revfix-'):
        # newest run first: seeded_lanes/seeded_run write check_results, tools/revfix_test.py writes results
        res=m.get('check_results') or {k+':quick':{'exit':r.get('exit'),'signatures':r.get('first_signatures',[])} for k,r in m.get('results',{}).items()}
        caught=sorted({k.split(':')[0] for k,v in res.items() if v.get('exit')==1})
        ran=sorted({k.split(':')[0] for k in res})
        what=m.get('subject','')[5:90]
        sig=next((v['signatures'][0] for v in res.values() if v.get('signatures')),'')
    else:
        res=m.get('check_results',{})
        caught=sorted({k.split(':')[0] for k,v in res.items() if v.get('exit')==1})
        ran=sorted({k.split(':')[0] for k in res})
        what=m.get('what','')[:90]
        sig=next((v['signatures'][0] for v in res.values() if v.get('signatures')),'')
    rows.append((name, what, ', '.join(caught) if caught else ('— (see verdict)' if m.get('verdict') else 'NONE'), ', '.join(ran), sig[:70]))
print("| seeded change | what it does | caught by (quick) | first signature |")
print("|---|---|---|---|")
for r in rows:
    print(f"| {r[0]} | {r[1]} | {r[2]} | `{r[4]}` |")
