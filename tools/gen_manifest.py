#!/usr/bin/env python3
"""Regenerate MANIFEST.json from lib/propcfg.py + lib/manifest_text.py (keeps it valid at all times)."""
import json, os, sys
V = os.path.dirname(os.path.dirname(os.path.abspath(__file__)))
sys.path.insert(0, os.path.join(V, "lib"))
import propcfg, manifest_text as mt
props = [json.loads(l) for l in open(os.path.join(V, "properties.jsonl"))]
checks, na = [], []
for p in props:
    pid = p["id"]
    if pid in propcfg.PROPS and pid in mt.CHECKS:
        t = mt.CHECKS[pid]
        checks.append({
            "property_id": pid,
            "quick_cmd": f"./check {pid} quick",
            "thorough_cmd": f"./check {pid} thorough",
            "evidence_file": f"/verif/evidence/{pid}.json",
            "replay_cmd_template": "./check --replay {path}",
            "engine": "hsv",
            "level_claimed": {"category": "exploration", "text": t["level"], "design_ref": t["design_ref"]},
            "level_note": t["note"],
            "technique": t["technique"],
        })
    else:
        na.append({"property_id": pid, "reason": mt.NOT_APPLICABLE.get(pid, "check not built yet in this round (planned: DESIGN.md section 4); not claimed")})
hooks_commits = mt.HOOK_COMMITS
m = {
    "version": 1,
    "setup_cmd": "./setup.sh",
    "hooks": {
        "guard": "cargo feature verif-hooks",
        "enable": "the harness crate depends on libhaystack = { path = \"/repo\", features = [\"verif-hooks\"] }; every check rebuilds it with cargo build --offline",
        "baseline_off_cmd": "cd /repo && cargo nextest run --workspace --no-fail-fast --test-threads 8 --offline || cargo test --workspace --no-fail-fast --offline",
        "source_commits": hooks_commits,
        "add_only": True,
    },
    "engines": [{"name": "hsv", "path": "/verif/harness", "serves_properties": [c["property_id"] for c in checks],
                 "kind_free_text": "Rust monitoring harness (reference models, law/crash/fuel monitors, event-log checkers) driven by ./check (python3, stdlib)"}],
    "checks": checks,
    "notes": mt.NOTES,
    "not_applicable": na,
}
json.dump(m, open(os.path.join(V, "MANIFEST.json"), "w"), indent=1)
print(f"{len(checks)} checks, {len(na)} not claimed")
