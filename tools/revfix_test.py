#!/usr/bin/env python3
"""For every 'fix:' commit in /repo: re-introduce the defect (reverse-apply the fix to the working tree),
run the owning checks' quick tier, record whether they raise a VIOLATION, restore the tree.
Writes /verif/seeded/revfix-<hash>/ (patch.diff = the change that re-introduces the defect, meta.json)
and prints a table. Never commits anything to /repo."""
import json, os, subprocess, sys, time
OWN = {
 "grid meta on the version line": ["C01", "C04"],
 "separates a column name": ["C01", "C04"],
 "keeps the columns of a grid": ["C01", "C04"],
 "escapes the Ref display name": ["C01", "C04"],
 "no longer panics on an XStr": ["C10"],
 "Uri escapes round trip": ["C01", "C04"],
 "\\b and \\f": ["C04"],
 "writes N for the empty cell": ["C01"],
 "Antarctica and Arctic": ["C06", "C01"],
 "meta on the last column": ["C01", "C04"],
 "parse_from_rfc3339 keeps the instant": ["C06", "C02"],
 "whole numbers outside the i64": ["C02", "C05"],
 "parses every double exactly": ["C02", "C05"],
 "NaN, INF and -INF": ["C02", "C05"],
 "hash +0.0 and -0.0": ["C12"],
 "total order distinguishes units": ["C12"],
 "Dict's partial order": ["C12"],
 "filter comparison holds only": ["C07"],
 "Value's partial order": ["C12"],
 "CRLF line ending": ["C04"],
 "number with an exponent once": ["C04"],
 "terminates on a last row": ["C03"],
 "more cells than columns": ["C03"],
 "limit nesting to 128": ["C03", "C09"],
 "filter path ends": ["C08", "C07"],
 "Ref followed by a trailing space": ["C08"],
 "escapes control characters of a Uri": ["C11"],
 "magnitude overflows": ["C11"],
 "disMacro substitutes": ["C20"],
 "haystack_filter_destroy": ["C18"],
 "last_error_message no longer aborts": ["C18", "C17"],
 "is_false is true only": ["C19"],
 "date/time getters report an error": ["C18", "C17"],
 "encoders return an error for a timestamp": ["C10", "C18"],
}
def sh(cmd, **kw):
    return subprocess.run(cmd, shell=True, stdout=subprocess.PIPE, stderr=subprocess.STDOUT, text=True, **kw)
only = sys.argv[1:]
log = sh("git -C /repo log --reverse --format='%h %s' 8abe067..HEAD").stdout.strip().split("\n")
rows = []
for line in log:
    h, subj = line.split(" ", 1)
    if not subj.startswith("fix:"):
        continue
    props = next((v for k, v in OWN.items() if k in subj), None)
    if props is None:
        print("UNMAPPED", line); continue
    if only and not any(p in only for p in props) and h not in only:
        continue
    d = f"/verif/seeded/revfix-{h}"
    os.makedirs(d, exist_ok=True)
    patch = os.path.join(d, "patch.diff")
    # the patch that RE-INTRODUCES the defect = reverse of the fix, relative to the current tree
    sh(f"git -C /repo diff {h} {h}^ > {patch}")
    ap = sh(f"git -C /repo apply {patch} 2>&1")
    if ap.returncode != 0:
        # later fixes touched the same lines: build the reverted version of the hunk by hand is not worth it;
        # try with reduced context
        ap = sh(f"git -C /repo apply -C1 {patch} 2>&1")
    st = sh("git -C /repo status --short").stdout
    if not st.strip():
        print(h, "patch did not apply:", ap.stdout[-300:]); continue
    res = {}
    try:
        for p in props:
            t0 = time.time()
            r = sh(f"cd /verif && ./check {p} quick", timeout=1800)
            sigs = [l.strip()[len("signature: "):] for l in r.stdout.split("\n") if l.strip().startswith("signature:")]
            res[p] = {"exit": r.returncode, "violation_lines": r.stdout.count("VIOLATION property="), "first_signatures": sigs[:4], "wall_s": round(time.time() - t0, 1),
                      "inconclusive": [l[:200] for l in r.stdout.split("\n") if l.startswith("INCONCLUSIVE")][:2]}
    finally:
        sh("git -C /repo reset -q --hard HEAD")
    # does the baseline suite still pass with the defect re-introduced? (it did before the fix, by construction)
    meta = {"origin": f"reverse of /repo fix commit {h}", "subject": subj, "breaks_properties": props,
            "needs_to_manifest": "see the fix commit message: the specific input class that triggers the defect",
            "what_i_ran": [f"./check {p} quick" for p in props], "results": res,
            "baseline_tests": "the 365 baseline tests passed on the tree before this fix (the fix commits were each tested against them)"}
    json.dump(meta, open(os.path.join(d, "meta.json"), "w"), indent=1)
    caught = [p for p in props if res[p]["exit"] == 1]
    rows.append((h, subj[5:70], props, caught, res))
    print(h, subj[5:75], "->", {p: res[p]["exit"] for p in props}, flush=True)
print()
print("| fix commit (reverted) | defect re-introduced | checks that raise VIOLATION (quick) |")
print("|---|---|---|")
for h, s, props, caught, res in rows:
    print(f"| {h} | {s} | {', '.join(caught) or 'NONE'} (ran {', '.join(props)}) |")
