#!/usr/bin/env python3
"""confirm_mutant.py <patch.diff> <demo.rs>  — in a scratch worktree (/tmp/wt-verify, outside /repo and /verif):
1. the patch applies and the crate + existing suite build and pass (365 tests),
2. the demo FAILS with the patch,
3. the demo PASSES without the patch.
Prints a JSON verdict. The worktree is reused between calls (build cache) and cleaned each time."""
import json, os, subprocess, sys, shutil
WT = "/tmp/wt-verify"
def sh(cmd, cwd=None, timeout=3600):
    p = subprocess.run(cmd, shell=True, cwd=cwd, stdout=subprocess.PIPE, stderr=subprocess.STDOUT, text=True, timeout=timeout)
    return p.returncode, p.stdout
patch, demo = os.path.abspath(sys.argv[1]), os.path.abspath(sys.argv[2])
if not os.path.isdir(WT):
    rc, out = sh(f"git -C /repo worktree add -q --detach {WT} HEAD")
    if rc: print(out); sys.exit(2)
sh("git checkout -q --detach $(git -C /repo rev-parse HEAD) && git checkout -- . && git clean -fdq -e target", cwd=WT)
res = {"patch": patch, "demo": demo}
rc, out = sh(f"git apply {patch}", cwd=WT)
res["applies"] = rc == 0
if rc:
    res["error"] = out[-400:]; print(json.dumps(res, indent=1)); sys.exit(1)
rc, out = sh("cargo nextest run --workspace --no-fail-fast --test-threads 8 --offline 2>&1 | tail -4", cwd=WT)
res["suite_with_patch"] = out.strip().split("\n")[-1][:160]
res["suite_passes_with_patch"] = "365 passed" in out and "failed" not in out.split("Summary")[-1]
name = "demo_confirm"
shutil.copy(demo, os.path.join(WT, "tests", name + ".rs"))
rc1, out1 = sh(f"cargo test --offline --test {name} 2>&1 | tail -15", cwd=WT)
res["demo_fails_with_patch"] = ("test result: FAILED" in out1) or ("panicked" in out1 and "test result: ok" not in out1) or ("SIGABRT" in out1 or "signal" in out1 or "overflowed its stack" in out1)
res["demo_output_with_patch"] = out1[-500:]
sh("git checkout -- .", cwd=WT)
rc2, out2 = sh(f"cargo test --offline --test {name} 2>&1 | tail -6", cwd=WT)
res["demo_passes_without_patch"] = "test result: ok" in out2 and "FAILED" not in out2
os.remove(os.path.join(WT, "tests", name + ".rs"))
sh("git checkout -- . && git clean -fdq -e target", cwd=WT)
res["confirmed"] = bool(res["suite_passes_with_patch"] and res["demo_fails_with_patch"] and res["demo_passes_without_patch"])
print(json.dumps(res, indent=1))
