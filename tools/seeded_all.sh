#!/bin/bash
# Re-run the owning checks' quick tier against every seeded change (applies each patch to /repo's working tree,
# runs, restores). Sequential; nothing else may touch /repo while it runs. Output: one line per change.
cd "$(dirname "$0")/.."
for d in seeded/C*-* seeded/revfix-*; do
  [ -f "$d/patch.diff" ] || continue
  if [[ "$d" == seeded/revfix-* ]]; then
    python3 tools/revfix_test.py "${d#seeded/revfix-}" 2>&1 | grep -E "^\| [0-9a-f]{7} " | cut -c1-200
  else
    python3 tools/seeded_run.py "$d" 2>&1 | tail -1 | cut -c1-200
  fi
done
echo ALL-DONE
