#!/usr/bin/env python3
"""seeded_run.py <seeded-dir> [props...] — apply seeded/<x>/patch.diff to /repo's working tree, run the quick check of
each property (from meta.json 'breaks_properties' unless given), restore the tree, and record the outcome in meta.json."""
import json, os, subprocess, sys, time
# REPO_DIR / VERIF_DIR: a scratch worktree of /repo and a copy of /verif whose harness depends on it (tools/seeded_lanes.py);
# by default the real /repo and /verif
REPO = os.environ.get("REPO_DIR", "/repo")
VERIF = os.environ.get("VERIF_DIR", "/verif")
d = os.path.abspath(sys.argv[1])
meta_p = os.path.join(d, "meta.json")
meta = json.load(open(meta_p)) if os.path.exists(meta_p) else {}
props = sys.argv[2:] or meta.get("breaks_properties", [])
tier = os.environ.get("TIER", "quick")
def sh(cmd, timeout=7200):
    return subprocess.run(cmd, shell=True, stdout=subprocess.PIPE, stderr=subprocess.STDOUT, text=True, timeout=timeout)
assert not sh(f"git -C {REPO} status --short").stdout.strip(), f"{REPO} working tree is not clean"
ap = sh(f"git -C {REPO} apply {d}/patch.diff")
if ap.returncode:
    # later commits touched neighbouring lines: retry with reduced context
    ap = sh(f"git -C {REPO} apply -C1 {d}/patch.diff")
if ap.returncode:
    print("patch does not apply:", ap.stdout[-300:]); sys.exit(2)
res = meta.setdefault("check_results", {})
try:
    for p in props:
        t0 = time.time()
        r = sh(f"cd {VERIF} && ./check {p} {tier}")
        sigs = [l.strip()[len("signature: "):] for l in r.stdout.split("\n") if l.strip().startswith("signature:")]
        res[f"{p}:{tier}"] = {"exit": r.returncode, "signatures": sigs[:5], "wall_s": round(time.time() - t0, 1),
                              "inconclusive": [l[:200] for l in r.stdout.split("\n") if l.startswith("INCONCLUSIVE")][:2]}
        print(os.path.basename(d), p, tier, "exit", r.returncode, sigs[:2])
finally:
    sh(f"git -C {REPO} reset -q --hard HEAD")
meta["caught_by"] = sorted({k.split(":")[0] for k, v in res.items() if v["exit"] == 1})
json.dump(meta, open(meta_p, "w"), indent=1)
